"""Native replay for units `label_source`, `kiq`, `sched_loop` (C10 send side, C15, C16). Run with /venv/bin/python. Prints one JSON line.
  (a) LabelScheduleSource: exhaustive small task/entry lists (cron / time / invalid entries, duplicates, equal times, foreign-broker tasks):
      get_schedules against the statement's comprehension; post_send removes the first entry with the fired time and nothing else.
  (b) TaskiqScheduler.on_ready: sync/async pre_send/post_send, cancelling or raising pre_send; payload of the one message sent.
  (c) AsyncKicker.kiq: hook order, message threading, SendTaskError.
  (d) run_scheduler_loop on a virtual clock: cron schedules once per matching minute, one-shot schedules once and on time, failing sources/sends isolated."""
import sys, json, asyncio, itertools, logging, selectors, datetime as _dt
logging.disable(logging.CRITICAL)

class VirtualLoop(asyncio.SelectorEventLoop):
    def __init__(self):
        super().__init__(selectors.DefaultSelector()); self._vt = 0.0
        sel = self._selector; orig = sel.select
        def select(timeout=None):
            ev = orig(0)
            if not ev and timeout is not None and timeout > 0: self._vt += timeout
            elif not ev and timeout is None: raise RuntimeError("virtual loop idle forever")
            return ev
        sel.select = select
    def time(self): return self._vt

def fresh_registry():
    from taskiq.abc.broker import AsyncBroker
    AsyncBroker.global_task_registry = {}

# ---------------------------------------------------------------- (a)
def label_source():
    from taskiq import InMemoryBroker
    from taskiq.schedule_sources import LabelScheduleSource
    from taskiq.scheduler.scheduled_task import ScheduledTask
    fails = []; n = 0
    T1 = _dt.datetime(2030, 1, 1, 10, 0, tzinfo=_dt.timezone.utc); T2 = T1 + _dt.timedelta(hours=1)
    ENTRY = {'c': lambda: {'cron': '* * * * *'}, 'c2': lambda: {'cron': '1 * * * *', 'args': [1], 'kwargs': {'a': 2}, 'cron_offset': 'Europe/Berlin'}, 't1': lambda: {'time': T1}, 't1b': lambda: {'time': T1, 'args': [9]},
             't2': lambda: {'time': T2}, 'bad': lambda: {'foo': 1}}
    kinds = list(ENTRY)
    lists = [()] + [(a,) for a in kinds] + [(a, b) for a in kinds for b in kinds] + [('t1', 'c', 't1b'), ('t1b', 't2', 't1'), ('bad', 't1', 't1'), ('t2', 't1', 't2', 't1b')]
    for l1 in lists:
        for l2 in ((), ('t1',), ('c', 't1b')):
            fresh_registry(); b = InMemoryBroker(); other = InMemoryBroker()
            async def f(): pass
            def mk(l): return [ENTRY[k]() for k in l]
            t_a = b.register_task(f, task_name='a', schedule=mk(l1)); t_b = b.register_task(f, task_name='b', schedule=mk(l2))
            t_f = other.register_task(f, task_name='foreign', schedule=mk(('t1', 'c'))); b._AsyncBroker__dummy = None
            # a task of another broker visible in this broker's registry
            b.local_task_registry['foreign'] = t_f
            src = LabelScheduleSource(b); n += 1
            got = asyncio.run(src.get_schedules())
            want = [(name, e.get('cron'), e.get('time'), e.get('cron_offset'), e.get('args', []), e.get('kwargs', {})) for name, l in (('a', l1), ('b', l2)) for e in mk(l) if 'cron' in e or 'time' in e]
            have = [(s.task_name, s.cron, s.time, s.cron_offset, s.args, s.kwargs) for s in got]
            if have != want: fails.append({'key': f"list {l1}/{l2}", 'failed_clauses': [f"C16: get_schedules listed {have}, expected {want}"]}); continue
            # fire every one-shot entry of task a, in listing order and in reverse order
            for order in (list(range(len(got))), list(reversed(range(len(got))))):
                fresh_registry(); b2 = InMemoryBroker()
                ta = b2.register_task(f, task_name='a', schedule=mk(l1)); tb = b2.register_task(f, task_name='b', schedule=mk(l2))
                src2 = LabelScheduleSource(b2); sch = asyncio.run(src2.get_schedules())
                for i in order:
                    s = sch[i]
                    before = {nm: [dict(e) for e in t.labels.get('schedule', [])] for nm, t in (('a', ta), ('b', tb))}
                    src2.post_send(s)
                    after = {nm: [dict(e) for e in t.labels.get('schedule', [])] for nm, t in (('a', ta), ('b', tb))}
                    exp = {nm: list(v) for nm, v in before.items()}
                    if not s.cron and s.time:
                        idx = next((j for j, e in enumerate(exp[s.task_name]) if e.get('time') == s.time), None)
                        if idx is not None: exp[s.task_name].pop(idx)
                    if after != exp:
                        fails.append({'key': f"post_send {l1}/{l2}/{order}", 'failed_clauses': [f"C16: after post_send of ({s.task_name}, cron={s.cron}, time={s.time}) the lists are {after}, expected {exp}"]}); break
    # entries with labels of their own: each listed schedule carries ITS entry's labels updated with the task's labels, and listing changes nothing
    fresh_registry(); b = InMemoryBroker(); n += 1
    async def g(): pass
    tk = b.register_task(g, task_name='lab', base='b', schedule=[{'cron': '1 * * * *', 'labels': {'only': 'first', 'base': 'x'}}, {'cron': '2 * * * *'}, {'time': T1, 'labels': {'third': 3}}])
    before = {k: v for k, v in tk.labels.items() if k != 'schedule'}
    for round_ in (1, 2):
        got = asyncio.run(LabelScheduleSource(b).get_schedules())
        have = [{k: v for k, v in s.labels.items() if k != 'schedule'} for s in got]
        want = [{'base': 'b', 'only': 'first'}, {'base': 'b'}, {'base': 'b', 'third': 3}]          # an entry's own labels, updated with the task's labels (the task's value wins for a key in both)
        if have != want: fails.append({'key': f'entry-labels/listing{round_}', 'failed_clauses': [f"C16: listing #{round_} of a task with labels {before} and per-entry labels gave schedule labels {have}, expected {want} (labels of one entry must not show up in another entry or in a later listing)"]}); break
    after = {k: v for k, v in tk.labels.items() if k != 'schedule'}
    if after != before: fails.append({'key': 'entry-labels/task-labels', 'failed_clauses': [f"C16: listing the schedules changed the task's own labels from {before} to {after}"]})
    # a task of ANOTHER broker registered globally under the same name as one of this broker's own tasks (shared-broker tasks): the own task and its schedules win
    fresh_registry(); b = InMemoryBroker(); other = InMemoryBroker(); n += 1
    async def f(): pass
    own = b.register_task(f, task_name='same', schedule=[{'cron': '5 * * * *'}, {'time': T1}])
    foreign = other.register_task(f, task_name='same2', schedule=[{'cron': '9 * * * *'}]); foreign.task_name = 'same'
    type(b).global_task_registry['same'] = foreign
    src = LabelScheduleSource(b); got = asyncio.run(src.get_schedules())
    have = [(s.task_name, s.cron, s.time) for s in got]
    if have != [('same', '5 * * * *', None), ('same', None, T1)]: fails.append({'key': 'shadowed-global-task', 'failed_clauses': [f"C16: a globally registered task of another broker shares the name of this broker's own scheduled task: get_schedules listed {have}, expected the own task's cron and one-shot entries"]})
    else:
        src.post_send(got[1])
        if [dict(e) for e in own.labels['schedule']] != [{'cron': '5 * * * *'}]: fails.append({'key': 'shadowed-global-task/post_send', 'failed_clauses': [f"C16: the fired one-shot entry of the own task was not removed when a foreign task shares its name: {own.labels['schedule']}"]})
    # payload fidelity: names, label keys/values and keyword arguments that carry blanks or capitals are the schedule's payload exactly as declared
    fresh_registry(); b = InMemoryBroker(); n += 1
    tk = b.register_task(f, task_name=' Padded Task ', schedule=[{'cron': '7 * * * *', 'labels': {' Key ': ' Value '}, 'kwargs': {' kw ': ' v '}, 'args': [' a ']}])
    got = asyncio.run(LabelScheduleSource(b).get_schedules())
    have = [(s.task_name, {k: v for k, v in s.labels.items() if k != 'schedule'}, s.args, s.kwargs, s.cron) for s in got]
    want = [(' Padded Task ', {' Key ': ' Value '}, [' a '], {' kw ': ' v '}, '7 * * * *')]
    if have != want: fails.append({'key': 'payload-fidelity', 'failed_clauses': [f"C16: a schedule declared as (task name, labels, args, kwargs, cron) = {want[0]} is listed as {have} - the payload that will be sent is not the declared one"]})
    fresh_registry()
    return fails, n

# ---------------------------------------------------------------- (b)
async def on_ready_case(pre_kind, is_async, kick_fails):
    from taskiq import InMemoryBroker, TaskiqScheduler, ScheduleSource
    from taskiq.scheduler.scheduled_task import ScheduledTask
    from taskiq.exceptions import ScheduledTaskCancelledError
    fresh_registry(); ev = []
    class B(InMemoryBroker):
        async def kick(self, m):
            ev.append(('kick', m.task_name, dict(m.labels), m.task_id))
            if kick_fails: raise RuntimeError("broker down")
            self.last = m
    b = B()
    class S(ScheduleSource):
        async def get_schedules(self): return []
        if is_async:
            async def pre_send(self, task):
                ev.append(('pre_send',))
                if pre_kind == 'cancel': raise ScheduledTaskCancelledError()
                if pre_kind == 'raise': raise ValueError("x")
            async def post_send(self, task): ev.append(('post_send',))
        else:
            def pre_send(self, task):
                ev.append(('pre_send',))
                if pre_kind == 'cancel': raise ScheduledTaskCancelledError()
                if pre_kind == 'raise': raise ValueError("x")
            def post_send(self, task): ev.append(('post_send',))
    sch = TaskiqScheduler(b, [S()])
    task = ScheduledTask(task_name='tn', labels={'l': 1}, args=[1, 'a'], kwargs={'k': 2}, cron='* * * * *', schedule_id='sid-7')
    raised = None
    try: await sch.on_ready(sch.sources[0], task)
    except BaseException as e: raised = type(e).__name__
    pr = []; names = [e[0] for e in ev]
    if names[:1] != ['pre_send']: pr.append(f"C16: pre_send is not the first event: {names}")
    if pre_kind == 'cancel':
        if names != ['pre_send'] or raised: pr.append(f"C16: cancelled schedule: events {names}, raised {raised}")
    elif pre_kind == 'raise':
        if 'kick' in names or 'post_send' in names or raised != 'ValueError': pr.append(f"C16: failing pre_send: events {names}, raised {raised}")
    else:
        if names.count('kick') != 1: pr.append(f"C16: {names.count('kick')} messages sent")
        else:
            k = ev[names.index('kick')]
            if k[1] != 'tn' or k[2].get('schedule_id') != 'sid-7' or str(k[2].get('l')) != '1': pr.append(f"C16: sent message {k}")
            if not kick_fails:
                from taskiq.message import TaskiqMessage
                m = b.formatter.loads(b.last.message)
                if m.args != [1, 'a'] or m.kwargs != {'k': 2}: pr.append(f"C16: sent args {m.args} kwargs {m.kwargs}")
        if kick_fails:
            if 'post_send' in names or raised != 'SendTaskError': pr.append(f"C16/C10: failed send: events {names}, raised {raised}")
        elif names != ['pre_send', 'kick', 'post_send'] or raised: pr.append(f"C16: events {names}, raised {raised}")
    return pr

# ---------------------------------------------------------------- (c)
async def on_ready_history():
    """history on ONE scheduler object: the schedule stored under a (user-chosen) schedule_id is replaced by another payload between two firings"""
    from taskiq import InMemoryBroker, TaskiqScheduler, ScheduleSource
    from taskiq.scheduler.scheduled_task import ScheduledTask
    fresh_registry(); sent = []
    class B(InMemoryBroker):
        async def kick(self, m): sent.append((m.task_name, {k: str(v) for k, v in m.labels.items()}))
    class S(ScheduleSource):
        async def get_schedules(self): return []
    b = B(); sch = TaskiqScheduler(b, [S()])
    firings = [ScheduledTask(task_name='report_eu', labels={'region': 'eu', 'dry_run': True}, args=['mon'], kwargs={}, cron='* * * * *', schedule_id='daily-report'),
               ScheduledTask(task_name='report_eu', labels={'region': 'eu', 'dry_run': True}, args=['tue'], kwargs={}, cron='* * * * *', schedule_id='daily-report'),
               ScheduledTask(task_name='report_us', labels={'region': 'us'}, args=['wed'], kwargs={}, cron='* * * * *', schedule_id='daily-report')]
    # label names that collide with something on the way: attributes of a log record (with the taskiq loggers enabled at DEBUG), `self`, `cls`, `task_name`
    firings.append(ScheduledTask(task_name='report_us', labels={'module': 'billing', 'name': 'n', 'self': '/jobs/42', 'args': 'a', 'task_name': 'x'}, args=['thu'], kwargs={'self_': 1}, cron='* * * * *', schedule_id='other'))
    lg = logging.getLogger('taskiq'); old_level = lg.level; nh = logging.NullHandler(); lg.addHandler(nh); lg.setLevel(logging.DEBUG); logging.disable(logging.NOTSET); died = []
    try:
        for t in firings:
            try: await sch.on_ready(sch.sources[0], t)
            except BaseException as e: died.append(f"{type(e).__name__}: {str(e)[:80]}")
    finally: logging.disable(logging.CRITICAL); lg.setLevel(old_level); lg.removeHandler(nh)
    want = [(t.task_name, {**{k: str(v) for k, v in t.labels.items()}, 'schedule_id': t.schedule_id}) for t in firings]
    if died: return [f"C16: four firings (the last one with labels named module / name / self / args / task_name, taskiq loggers at DEBUG): on_ready raised {died}; sent {len(sent)} of 4 messages"]
    return [] if sent == want else [f"C16: firings under one schedule_id (the schedule was replaced before the third; a fourth schedule has labels named like log-record attributes / self): sent (task name, labels) {sent}, the schedules that fired say {want}"]

async def kiq_case(asyncs, fail_at):
    from taskiq import InMemoryBroker, TaskiqMiddleware
    from taskiq.exceptions import SendTaskError
    fresh_registry(); ev = []
    class B(InMemoryBroker):
        async def kick(self, m):
            ev.append(('kick', dict(m.labels).get('trail')))
            if fail_at == 'kick': raise RuntimeError("down")
    b = B()
    def mk(i, a):
        if a:
            class M(TaskiqMiddleware):
                async def pre_send(self, message): ev.append(('pre_send', i, message.labels.get('trail'))); m = message.model_copy(deep=True); m.labels['trail'] = str(message.labels.get('trail', '')) + str(i); return m
                async def post_send(self, message): ev.append(('post_send', i, message.labels.get('trail')))
        else:
            class M(TaskiqMiddleware):
                def pre_send(self, message): ev.append(('pre_send', i, message.labels.get('trail'))); m = message.model_copy(deep=True); m.labels['trail'] = str(message.labels.get('trail', '')) + str(i); return m
                def post_send(self, message): ev.append(('post_send', i, message.labels.get('trail')))
        return M()
    class Plain(TaskiqMiddleware): pass
    b.add_middlewares(mk(0, asyncs[0]), Plain(), mk(2, asyncs[1]))
    async def t(): pass
    task = b.register_task(t, task_name='t')
    raised = None; cause = None
    try: await task.kiq()
    except BaseException as e: raised = type(e).__name__; cause = type(e.__cause__).__name__ if e.__cause__ is not None else None
    pr = []
    pre = [e for e in ev if e[0] == 'pre_send']; post = [e for e in ev if e[0] == 'post_send']; kicks = [e for e in ev if e[0] == 'kick']
    if [(e[1], e[2]) for e in pre] != [(0, None), (2, '0')]: pr.append(f"C10: pre_send hooks saw {pre}")
    if len(kicks) != 1 or kicks[0][1] != '02': pr.append(f"C10: broker received {kicks}")
    if ev and [e[0] for e in ev] != sorted([e[0] for e in ev], key=['pre_send', 'kick', 'post_send'].index): pr.append(f"C10: send-side order {[e[0] for e in ev]}")
    if fail_at == 'kick':
        if post or raised != 'SendTaskError' or cause != 'RuntimeError': pr.append(f"C10: failed send: post_send {post}, raised {raised} from {cause}")
    elif [(e[1], e[2]) for e in post] != [(0, '02'), (2, '02')] or raised: pr.append(f"C10: post_send hooks saw {post}, raised {raised}")
    return pr

async def kiq_history():
    """several sends through ONE broker whose middleware list changes in between without changing its length (replace, reorder, re-assign) and by growing:
    every send must run the hooks of the middlewares registered AT THAT SEND, in list order"""
    from taskiq import InMemoryBroker, TaskiqMiddleware
    fresh_registry(); ev = []
    class B(InMemoryBroker):
        async def kick(self, m): ev.append(('kick', m.labels.get('trail')))
    def mk(tag):
        class M(TaskiqMiddleware):
            def pre_send(self, message): ev.append(('pre_send', tag)); m = message.model_copy(deep=True); m.labels['trail'] = str(message.labels.get('trail', '')) + tag; return m
            async def post_send(self, message): ev.append(('post_send', tag))
        return M()
    b = B(); a_, b_, c_ = mk('A'), mk('B'), mk('C')
    async def t(): pass
    task = b.register_task(t, task_name='t'); pr = []
    async def send(expect, what):
        del ev[:]; await task.kiq()
        want = [('pre_send', x) for x in expect] + [('kick', ''.join(expect) or None)] + [('post_send', x) for x in expect]
        if ev != want: pr.append(f"C10: send after {what}: registered middlewares {expect}, observed {ev}, expected {want}")
    b.add_middlewares(a_, b_); await send(['A', 'B'], "registering A, B")
    b.middlewares[0] = c_; await send(['C', 'B'], "replacing A by C in place (list length unchanged)")
    b.middlewares.reverse(); await send(['B', 'C'], "reversing the list (list length unchanged)")
    b.middlewares = [a_, c_]; await send(['A', 'C'], "assigning a new list of the same length")
    b.add_middlewares(b_); await send(['A', 'C', 'B'], "adding B")
    del b.middlewares[:]; await send([], "removing all middlewares")
    return pr

# ---------------------------------------------------------------- (d)
def loop_case(start_off, horizon, oneshots, crons, failing_source, failing_send, slow_listing=0.0, host_offset_h=0.0, check_oneshots=None, stable_ids=False, entry='loop', base_hms=(12, 0, 0), slow_send=0.0, twin_source=False):
    """slow_send: every send takes that long (its start is what counts); twin_source: a second source lists schedules with other labels under the same ids as the first source's. oneshots: list of offsets (s) from BASE; crons: list of cron expressions"""
    import taskiq.cli.scheduler.run as run_mod
    from taskiq import TaskiqScheduler, ScheduleSource
    from taskiq.schedule_sources import LabelScheduleSource
    from taskiq.abc.broker import AsyncBroker
    import pytz
    fresh_registry()
    BASE = _dt.datetime(2026, 3, 1, *base_hms, tzinfo=pytz.UTC)
    loop = VirtualLoop(); asyncio.set_event_loop(loop)
    class VDateTime(_dt.datetime):
        @classmethod
        def now(cls, tz=None):
            t = BASE + _dt.timedelta(seconds=loop.time())
            return t.astimezone(tz) if tz is not None else (t + _dt.timedelta(hours=host_offset_h)).replace(tzinfo=None)          # naive = the host's local wall clock
        @classmethod
        def utcnow(cls): return (BASE + _dt.timedelta(seconds=loop.time())).replace(tzinfo=None)
    real_dt = run_mod.datetime; run_mod.datetime = VDateTime
    sent = []
    class B(AsyncBroker):
        async def kick(self, m):
            if failing_send and m.task_name == 'cron0' and not getattr(self, 'failed_once', False): self.failed_once = True; raise RuntimeError("send failed")
            sent.append((round(loop.time(), 3), m.task_name + ('/twin' if dict(m.labels).get('twin') else '')))
            if slow_send: await asyncio.sleep(slow_send)          # the send is under way (recorded at its start) and stays in flight across the next poll(s)
        async def listen(self): yield b""
    b = B()
    async def f(): pass
    for i, off in enumerate(oneshots): b.register_task(f, task_name=f'once{i}', schedule=[{'time': BASE + _dt.timedelta(seconds=off)}])
    for i, c in enumerate(crons): b.register_task(f, task_name=f'cron{i}', schedule=[dict(c) if isinstance(c, dict) else {'cron': c}])          # a dict entry may carry a cron_offset
    class Bad(ScheduleSource):          # the failure differs from poll to poll: with a message, without any argument (as asyncio.wait_for's TimeoutError() or a bare `raise ConnectionResetError`), a KeyError
        calls = 0
        async def get_schedules(self):
            Bad.calls += 1
            raise (RuntimeError("listing failed"), asyncio.TimeoutError(), ConnectionResetError(), KeyError('k'))[Bad.calls % 4]
    class Slow(LabelScheduleSource):
        async def get_schedules(self):
            await asyncio.sleep(slow_listing); return await super().get_schedules()
    class Stable(ScheduleSource):          # a source that lists the same schedule ids at every poll (as a database-backed source does)
        def __init__(self, inner): self.inner = inner; self.cache = None
        async def startup(self): await self.inner.startup()
        async def get_schedules(self):
            if self.cache is None: self.cache = await self.inner.get_schedules()
            return self.cache if stable_ids == 'live' else list(self.cache)          # 'live': the source hands out ITS list (as a simple in-memory source does) and edits it in place
        def post_send(self, task):
            if task.time is not None:
                if stable_ids == 'live': self.cache[:] = [x for x in self.cache if x is not task and x.schedule_id != task.schedule_id]
                else: self.cache = [x for x in self.cache if x is not task and x.schedule_id != task.schedule_id]
    class AsyncStable(Stable):          # the same with an `async def post_send` (allowed by ScheduleSource): on_ready must await it
        async def post_send(self, task): Stable.post_send(self, task)
    class Twin(ScheduleSource):          # a second, independent source that happens to list the same schedules under the same ids (two sources reading one table)
        def __init__(self, first): self.first = first
        async def get_schedules(self):
            if self.first.cache is None: await self.first.get_schedules()
            return [x.model_copy(update={'labels': dict(x.labels, twin='1')}) for x in self.first.cache]          # DIFFERENT schedules (other labels) that happen to carry the same ids as the first source's
    sources = [Slow(b) if slow_listing else ((AsyncStable if stable_ids == 'async' else Stable)(LabelScheduleSource(b)) if stable_ids else LabelScheduleSource(b))] + ([Bad()] if failing_source else [])
    if twin_source: sources.append(Twin(sources[0]))
    class Runaway(BaseException): pass
    polls = [0]; poll_cap = (int(horizon // 60) + 3) * 10
    for src_ in sources:          # a poll is due at start and at every minute boundary: far more polls than minutes means the sleep between polls is not positive
        def counted(orig=src_.get_schedules):
            polls[0] += 1
            if polls[0] > poll_cap * len(sources): raise Runaway()
            return orig()
        src_.get_schedules = counted
    sched = TaskiqScheduler(b, sources)
    async def main():
        await asyncio.sleep(start_off)
        if entry == 'loop': t = asyncio.ensure_future(run_mod.run_scheduler_loop(sched))
        else:          # the whole `taskiq scheduler` entry point: start-up of the sources, the optional skip of the first run, then the loop
            from taskiq.cli.scheduler.args import SchedulerArgs
            a_ = SchedulerArgs.from_cli(['replay_module:scheduler'] + (['--skip-first-run'] if entry == 'cli-skip-first-run' else [])); a_.scheduler = sched; a_.configure_logging = False          # the real option parser decides skip_first_run
            t = asyncio.ensure_future(run_mod.run_scheduler(a_))
        await asyncio.sleep(horizon - start_off); t.cancel()
        try: await t
        except asyncio.CancelledError: pass
        except BaseException as e: sent.append(('LOOP DIED', type(e).__name__))
    try: loop.run_until_complete(main())
    finally: loop.close(); run_mod.datetime = real_dt
    pr = []
    if any(s == ('LOOP DIED', 'Runaway') for s in sent): pr.append(f"C15: the scheduler polled its sources more than {poll_cap} times within {horizon / 60:.0f} minutes (one poll is due at start and one per minute boundary): the sleep until the next boundary is not positive" + (f" [host UTC offset {host_offset_h:+}h]" if host_offset_h else ""))
    elif any(s[0] == 'LOOP DIED' for s in sent): pr.append(f"C15: the scheduler loop stopped: {sent[-1]}")
    if check_oneshots is None: check_oneshots = not slow_listing          # with a very slow source only 'never twice in one minute' is checked (a listing that ends after T sends late by design)
    for i, off in enumerate(oneshots if check_oneshots else []):
        k = [s for s in sent if s[1] == f'once{i}']
        due = max(off, start_off)
        if off <= horizon - 62:
            ctx = (f", listing takes {slow_listing}s" if slow_listing else "") + (f", host UTC offset {host_offset_h:+}h" if host_offset_h else "")
            if len(k) != 1: pr.append(f"C15: one-shot schedule with T = start+{off}s (loop started at +{start_off}s{ctx}) was sent {len(k)} times at {[x[0] for x in k]} [T is {off % 60:.2f} s after a minute boundary]")
            elif not (due - 1e-6 <= k[0][0] <= due + 1.0 + 1e-6) and off > start_off:
                for pid in ('C15', 'C14'): pr.append(f"{pid}: one-shot schedule T=+{off}s sent at +{k[0][0]}s by the scheduler loop (not before T and within 1 s after it is required{ctx})")
    for i, c in enumerate(crons):
        k = sorted(s[0] for s in sent if s[1] == f'cron{i}')
        mins = sorted({int(x // 60) for x in k})
        if len(mins) != len(k): pr.append(f"C15: cron schedule {c!r} sent more than once in a minute: {k}")
        if twin_source:
            k2 = sorted(s[0] for s in sent if s[1] == f'cron{i}/twin')
            if sorted(int(x // 60) for x in k2) != mins: pr.append(f"C15: a second source lists another schedule {c!r} (other labels) under the SAME schedule id as the first source's: it was sent in minutes {sorted(int(x // 60) for x in k2)}, the first source's in {mins} - every source's schedules are due independently of the others'")
        first = int(start_off // 60); last = int((horizon - 1) // 60)
        import pycron
        if isinstance(c, dict):          # cron entry with an offset: the wall clock it is matched against is UTC shifted by the offset (timedelta) / the zone's local time
            import zoneinfo
            off_ = c.get('cron_offset'); expr_ = c['cron']
            def wall(mi):
                u = BASE + _dt.timedelta(minutes=mi)
                return u + off_ if isinstance(off_, _dt.timedelta) else u.astimezone(zoneinfo.ZoneInfo(off_))
            want = [mi for mi in range(first, last + 1) if pycron.is_now(expr_, wall(mi))]
            if mins != want:
                for pid in ('C13', 'C15'): pr.append(f"{pid}: cron schedule {expr_!r} with offset {off_!r} declared in a task's schedule label was sent in minutes {mins} of {BASE.isoformat()}, expected {want}")
            continue
        want = [mi for mi in range(first, last + 1) if pycron.is_now(c, BASE + _dt.timedelta(minutes=mi))]
        if host_offset_h and mins != want: pr.append(f"C13: cron schedule {c!r} sent by the scheduler loop in minutes {mins} of {BASE.isoformat()} on a host with UTC offset {host_offset_h:+}h, expected {want} (UTC is the reference when no offset is given)")
        if failing_send and i == 0 and want: want = want[1:] if mins and mins[0] != want[0] else want
        if mins != want and not slow_listing:
            pr.append(f"C15: cron schedule {c!r} sent in minutes {mins[:8]}{'...' if len(mins) > 8 else ''}, expected {want[:8]}{'...' if len(want) > 8 else ''}")
            if not failing_send and not failing_source and not slow_send and not twin_source: pr.append(f"C13: in a loop without any failure the cron schedule {c!r} was considered due in minutes {mins[:8]}{'...' if len(mins) > 8 else ''} of {BASE.isoformat()}; its expression matches in minutes {want[:8]}{'...' if len(want) > 8 else ''}")
    return pr

def run(sc):
    fails = []; n = 0
    which = sc.get('parts') or ['label_source', 'on_ready', 'kiq', 'loop']
    if 'label_source' in which:
        f, k = label_source(); fails += f; n += k
    if 'on_ready' in which:
        for pre_kind in ('ok', 'cancel', 'raise'):
            for is_async in (False, True):
                for kick_fails in (False, True):
                    pr = asyncio.run(on_ready_case(pre_kind, is_async, kick_fails)); n += 1
                    if pr: fails.append({'key': f"on_ready/{pre_kind}/{is_async}/{kick_fails}", 'failed_clauses': pr})
    if 'on_ready' in which:
        pr = asyncio.run(on_ready_history()); n += 1
        if pr: fails.append({'key': 'on_ready/history-same-schedule-id', 'failed_clauses': pr})
    if 'kiq' in which:
        for asyncs in itertools.product((False, True), repeat=2):
            for fail_at in (None, 'kick'):
                pr = asyncio.run(kiq_case(asyncs, fail_at)); n += 1
                if pr: fails.append({'key': f"kiq/{asyncs}/{fail_at}", 'failed_clauses': pr})
    if 'kiq' in which:
        pr = asyncio.run(kiq_history()); n += 1
        if pr: fails.append({'key': 'kiq/history-middleware-list-changes', 'failed_clauses': pr})
    if 'loop' in which:
        for start_off in (0.0, 0.4, 30.0, 59.7):
            for oneshots in ([90.0], [30.0, 60.0, 60.5, 61.0, 61.5], [59.9, 120.0, 121.0], [-5.0, 200.0], [30.2, 45.1, 60.3, 118.05]):          # the last set: due times with a small sub-second part, picked up by a first poll that starts later within its second
                for crons, failing_source, failing_send in ((['* * * * *'], False, False), (['*/2 * * * *', '1,3 * * * *'], True, False), (['* * * * *'], False, True)):
                    pr = loop_case(start_off, 330.0, oneshots, crons, failing_source, failing_send); n += 1
                    if pr: fails.append({'key': f"loop/start+{start_off}/oneshots={oneshots}/crons={crons}/{failing_source}/{failing_send}", 'failed_clauses': pr})
        for start_off, slow in ((59.7, 0.6), (30.0, 0.6), (59.9, 45.0)):          # a source whose listing takes time, started so that the listing straddles a minute boundary
            pr = loop_case(start_off, 330.0, [200.0], ['* * * * *'], False, False, slow_listing=slow); n += 1
            if pr: fails.append({'key': f"loop/start+{start_off}/slow-listing={slow}", 'failed_clauses': pr})
        for start_off in (0.4, 30.0):          # through the `taskiq scheduler` entry point (default: the first poll happens at start)
            pr = loop_case(start_off, 330.0, [start_off + 10.0, 90.0, 200.0], ['* * * * *'], False, False, entry='cli'); n += 1
            if pr: fails.append({'key': f"run_scheduler/start+{start_off}", 'failed_clauses': pr})
        pr = loop_case(0.4, 330.0, [], [{'cron': '* 14 * * *', 'cron_offset': _dt.timedelta(hours=2)}, {'cron': '* 13 * * *', 'cron_offset': 'Europe/Berlin'}, {'cron': '* 12 * * *', 'cron_offset': _dt.timedelta(hours=-3)}], False, False); n += 1
        if pr: fails.append({'key': "loop/label-source/cron-offsets", 'failed_clauses': pr})
        for off_h in (5.5, -8.0):          # a host whose local time is not UTC: naive datetime.now() differs from UTC there
            pr = loop_case(0.4, 330.0, [90.0, 200.0], ['* 12 * * *', '* 17 * * *', '* 4 * * *'], False, False, host_offset_h=off_h); n += 1
            if pr: fails.append({'key': f"loop/host-offset={off_h}", 'failed_clauses': pr})
        for slow in (1.5, 3.0):          # listing latency above 1 s: the delay must be computed AFTER the listing, otherwise the send is late by the latency
            pr = loop_case(30.0, 330.0, [200.0, 250.5], ['* * * * *'], False, False, slow_listing=slow, check_oneshots=True); n += 1
            if pr: fails.append({'key': f"loop/start+30.0/slow-listing={slow}/one-shots", 'failed_clauses': pr})
        pr = loop_case(20.25, 330.0, [45.0, 90.0, 150.0, 200.0], ['* * * * *'], False, False, base_hms=(23, 57, 0)); n += 1          # across minute 59, the hour and the day boundary
        if pr: fails.append({'key': "loop/base=23:57/across-midnight", 'failed_clauses': pr})
        pr = loop_case(0.4, 330.0, [90.0, 150.0], ['* * * * *'], False, False, stable_ids='async'); n += 1
        if pr: fails.append({'key': "loop/stable-ids/async-post_send", 'failed_clauses': pr})
        for start_off in (0.4, 59.7):          # a send that fails once must not affect later occurrences, also for sources that list the same schedule ids at every poll
            pr = loop_case(start_off, 330.0, [90.0], ['* * * * *', '*/2 * * * *'], False, True, stable_ids=True); n += 1
            if pr: fails.append({'key': f"loop/start+{start_off}/stable-ids/failing-send", 'failed_clauses': pr})
        # sends that take longer than a minute (a slow broker): the occurrence of the NEXT minute is due all the same - with ids that change per poll and with stable ids
        for stable in (False, True):
            pr = loop_case(0.4, 330.0, [], ['* * * * *', '*/2 * * * *'], False, False, stable_ids=stable, slow_send=75.0); n += 1
            if pr: fails.append({'key': f"loop/slow-send=75s/stable-ids={stable}", 'failed_clauses': pr})
        # two sources that list the same schedules under the same ids: sources are independent, each one's occurrence is sent
        pr = loop_case(0.4, 330.0, [], ['* * * * *', '*/2 * * * *'], False, False, stable_ids=True, twin_source=True); n += 1
        if pr: fails.append({'key': "loop/twin-sources-same-ids", 'failed_clauses': pr})
        # a long life: 25 hours with a stable-id source - an expression that matches once a day (and one that matches once an hour) fires again on day 2
        pr = loop_case(0.4, 25 * 3600.0 + 330.0, [], ['5 12 * * *', '0 * * * *'], False, False, stable_ids=True); n += 1
        if pr: fails.append({'key': "loop/25-hours/stable-ids", 'failed_clauses': pr[:6]})
        # a big source that hands out its live list: 1 due one-shot followed by 299 every-minute schedules
        pr = loop_case(0.4, 150.0, [0.2], ['* * * * *'] * 299, False, False, stable_ids='live'); n += 1
        if pr: fails.append({'key': "loop/300-schedules/live-list", 'failed_clauses': pr[:6]})
    return {'reproduced': bool(fails), 'runs': n, 'n_failures': len(fails), 'failures': fails[:400]}

if __name__ == '__main__':
    sc = json.load(open(sys.argv[1])) if len(sys.argv) > 1 else {}
    print(json.dumps(run(sc.get('scenario', sc)), default=str))
