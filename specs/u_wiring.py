"""Unit `wiring`: taskiq/cli/worker/run.py::start_listen and taskiq/receiver/receiver.py::Receiver.__init__ — the hand-over of the worker's configuration to the Receiver it builds
(C02, C03, C04, C05, C08, C12: those statements are phrased over "max_async_tasks = A", "max_prefetch = P", "the acknowledge type",
"exception propagation enabled", ... - what the user configures is what `taskiq worker` passes on).

Contract: the one call that builds the receiver (role: the call whose keywords include max_async_tasks) passes, for every option the
properties talk about, exactly the corresponding field of the parsed arguments - negated for the two `--no-...` switches - and `**receiver_kwargs`
can only add further options. Each keyword expression of the REAL call is evaluated symbolically over an arbitrary WorkerArgs."""
import ast
from z3 import *
from pyvc.core import *

PROPS = ['C02', 'C03', 'C04', 'C05', 'C08', 'C12']
REPLAY = {'driver': 'wiring'}
REL = 'taskiq/cli/worker/run.py'
TRUSTED = ["WorkerArgs.from_cli maps each command-line option to the field of the same meaning (checked natively by replay/wiring.py for the options used here, not deductively)",
           "receiver_kwargs (--receiver_arg) is user-supplied and may override nothing that is passed explicitly (Python raises TypeError on a duplicate keyword)"]

# option of the Receiver -> (field of WorkerArgs, negated?, properties it carries)
WANT = {'max_async_tasks': ('max_async_tasks', False, 'C03/C04'), 'max_prefetch': ('max_prefetch', False, 'C04'), 'propagate_exceptions': ('no_propagate_errors', True, 'C12'),
        'validate_params': ('no_parse', True, 'C08'), 'ack_type': ('ack_type', False, 'C02'), 'max_tasks_to_execute': ('max_tasks_per_child', False, 'C05'),
        'wait_tasks_timeout': ('wait_tasks_timeout', False, 'C05')}


def generate(src):
    fd = src.func(REL, 'start_listen')
    calls = [n for n in ast.walk(fd) if isinstance(n, ast.Call) and any(k.arg == 'max_async_tasks' for k in n.keywords)]
    if len(calls) != 1: raise Unsupported(f"start_listen: expected exactly one call that builds the receiver (a call with a max_async_tasks keyword), found {len(calls)}")
    call = calls[0]
    args_a = Int('args_addr'); st0 = State(); st0.env = {'args': PyObj(args_a)}
    class Ex(Exec):
        def ev_Name(self, e, st, k, K):
            if e.id not in st.env: raise Unsupported("receiver option computed from a local the contract does not know: " + e.id)
            return super().ev_Name(e, st, k, K)
    ex = Ex({}); ex.no_pure_fallback = True
    kws = {k.arg: k.value for k in call.keywords if k.arg is not None}
    for opt, (field, neg, props) in WANT.items():
        if opt not in kws:
            oblige(st0, f"start_listen/receiver option {opt}: passed explicitly from the parsed arguments  [{props}]", BoolVal(False)); continue
        st = st0.fork(); fv = st.heap.field(field)[args_a]
        def got(s, v, opt=opt, field=field, neg=neg, props=props, fv=fv):
            if neg: oblige(s, f"start_listen/receiver option {opt} == not args.{field}  [{props}]", truthy(v) == Not(truthy(fv)), witness={'args.' + field: fv})
            else: oblige(s, f"start_listen/receiver option {opt} == args.{field}  [{props}]", to_val(v) == fv, witness={'args.' + field: fv})
            reach(s, f"start_listen/reach@{opt}")
        ex.ev(kws[opt], st, got, {'exc': lambda s, x: oblige(s, f"start_listen/receiver option {opt}: evaluating it raises nothing  [{props}]", BoolVal(False))})
    # ---------------- Receiver.__init__: the options are stored as given (callback / run_task / prefetcher / runner read them back from self)
    RREL = 'taskiq/receiver/receiver.py'; init = src.func(RREL, 'Receiver.__init__')
    class ExI(Exec):
        def st_For(self, s, st, k, K): return k(st)          # the task-preparation loop (no option is assigned inside a loop: checked below)
    for lp in [n for n in ast.walk(init) if isinstance(n, (ast.For, ast.While))]:
        if any(isinstance(x, ast.Attribute) and isinstance(x.ctx, ast.Store) and x.attr in ('validate_params', 'propagate_exceptions', 'ack_time', 'max_tasks_to_execute', 'wait_tasks_timeout') for x in ast.walk(lp)):
            raise Unsupported("Receiver.__init__: an option is assigned inside a loop")
    exi = ExI({'logger.*': noop, 'asyncio.Semaphore': opaque('semaphore'), 'set': opaque('set')}); exi.ev_Dict = lambda e, st, k, K: k(st, fresh('dict'))
    sti = State(); self_a = Int('self_a'); sti.env = {'self': PyObj(self_a)}; params = {}
    for a_ in init.args.args[1:]: params[a_.arg] = fresh(a_.arg); sti.env[a_.arg] = params[a_.arg]
    if 'ack_type' in params: sti.pc.append(Or(params['ack_type'] == Val.none, Val.is_ref(params['ack_type'])))          # an enum member (truthy) or None
    if 'max_async_tasks' in params: sti.pc.append(Or(params['max_async_tasks'] == Val.none, Val.is_intv(params['max_async_tasks'])))
    def i_ret(s, v):
        h = s.heap
        for fld, par, props in (('validate_params', 'validate_params', 'C08'), ('propagate_exceptions', 'propagate_exceptions', 'C12'), ('max_tasks_to_execute', 'max_tasks_to_execute', 'C05'), ('wait_tasks_timeout', 'wait_tasks_timeout', 'C05')):
            oblige(s, f"Receiver.__init__/post: self.{fld} is the `{par}` the receiver was built with  [{props}]", h.field(fld)[self_a] == params[par] if par in params else BoolVal(False))
        oblige(s, "Receiver.__init__/post: self.ack_time is the `ack_type` the receiver was built with (when_saved if none was given)  [C02]",
               Implies(params['ack_type'] != Val.none, h.field('ack_time')[self_a] == params['ack_type']) if 'ack_type' in params else BoolVal(False))
        reach(s, "Receiver.__init__/reach@return")
    exi.run(init, sti, i_ret, lambda s, x: None)
    return {'receiver_call_keywords': sorted(kws)}
