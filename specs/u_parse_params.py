"""Unit `parse_params`: taskiq/receiver/params_parser.py::parse_params — C08 (arguments bound to the right parameters).

Contract (DESIGN A.4), from the statement: with ps = list(signature.parameters) (declaration order) and conv(T, v) the uninterpreted
"pydantic conversion" (returns, or raises ValueError/RuntimeError which is swallowed):
   args'[j]   == conv(hints[ps[j]], args[j])  if j < len(ps), ps[j] has a hint, args[j] is not None and the conversion succeeds, else args[j]
   kwargs'[k] == conv(hints[k], kwargs[k])    if k is a parameter NOT bound positionally (index(ps,k) >= len(args)), has a hint, value not None, conversion succeeds, else kwargs[k]
   len(args') == len(args); key set of kwargs unchanged; signature is None => nothing changes.
Precondition (statement's quantifier): the signature has no var-positional parameter, so position j of the call binds to parameter j.
Loop invariant over the *position* of the current parameter (ghost index of the for loop), quantified over arrays."""
import ast, itertools
from z3 import *
from pyvc.core import *

PROPS = ['C08']          # the 'never escapes' obligation also carries C01
REPLAY = {'driver': 'parse_params'}
REL = 'taskiq/receiver/params_parser.py'
TRUSTED = [
    "parse_obj_as(T, v) returns conv(T, v) or raises ValueError/RuntimeError (pydantic's ValidationError is a ValueError); any other exception class is not caught by parse_params",
    "signature.parameters iterates the parameter names in declaration order, names are distinct; type_hints never maps a name to None",
    "no var-positional (*args) parameter: positional argument j binds to parameter j",
    "message.args is a list, message.kwargs a dict; they are distinct objects not aliased with signature/type_hints",
]


def generate(src):
    fdef = src.func(REL, 'parse_params')
    conv = Function('conv', Val, Val, Val); conv_ok = Function('conv_ok', Val, Val, BoolSort())
    pos = Function('pos', Val, IntSort()); inps = Function('inps', Val, BoolSort())
    st = State(); h = st.heap
    sig = fresh('signature'); th_a = Int('th_addr'); msg_a = Int('msg_addr'); args_a = Int('args_addr'); kw_a = Int('kw_addr'); ps_a = Int('ps_addr')
    st.env = {'signature': sig, 'type_hints': PyDict(th_a), 'message': PyObj(msg_a)}
    h.fld['args'] = Store(h.field('args'), msg_a, Val.ref(args_a)); h.fld['kwargs'] = Store(h.field('kwargs'), msg_a, Val.ref(kw_a))
    n = h.llen[args_a]; npar = h.llen[ps_a]
    A0 = h.litem[args_a]; KW0 = h.dval[kw_a]; KH0 = h.dhas[kw_a]; PS = h.litem[ps_a]; TH = h.dval[th_a]; THH = h.dhas[th_a]
    def hint(kx): return If(THH[kx], TH[kx], Val.none)
    p, q, j = Ints('p q j'); key = Const('key', Val)
    st.pc += [Distinct(th_a, msg_a, args_a, kw_a, ps_a), n >= 0, npar >= 0, Or(sig == Val.none, Val.is_ref(sig))]
    st.facts += [ForAll([p, q], Implies(And(0 <= p, p < npar, 0 <= q, q < npar, PS[p] == PS[q]), p == q)),
                 ForAll([p], Implies(And(0 <= p, p < npar), And(pos(PS[p]) == p, inps(PS[p])))),
                 ForAll([key], Implies(inps(key), And(0 <= pos(key), pos(key) < npar, PS[pos(key)] == key))),
                 ForAll([key], Implies(THH[key], TH[key] != Val.none))]
    W = {'n_args': n, 'n_params': npar, 'signature_is_none': sig == Val.none}
    RP = {'driver': 'parse_params'}
    st.ghost = {'__witness': W}
    def arg_spec(jx, upto):
        hj = hint(PS[jx])
        return If(And(jx < upto, jx < npar, hj != Val.none, A0[jx] != Val.none, conv_ok(hj, A0[jx])), conv(hj, A0[jx]), A0[jx])
    def kw_spec(kx, upto):
        hk = hint(kx)
        return If(And(KH0[kx], inps(kx), pos(kx) < upto, pos(kx) >= n, hk != Val.none, KW0[kx] != Val.none, conv_ok(hk, KW0[kx])), conv(hk, KW0[kx]), KW0[kx])
    INV_TEXT = ["len(message.args) unchanged", "signature.parameters unchanged", "parameter names unchanged", "type hints unchanged", "type hints keys unchanged", "message.args is the same list",
                "message.kwargs is the same dict", "positional arguments at positions already visited are converted by THEIR parameter's hint, all others untouched",
                "keyword arguments of parameters already visited (and not bound positionally) are converted by their hint, key set unchanged"]
    def Inv(s, i):
        hh = s.heap
        return [hh.llen[args_a] == n, hh.llen[ps_a] == npar, hh.litem[ps_a] == PS, hh.dval[th_a] == TH, hh.dhas[th_a] == THH,
                hh.field('args')[msg_a] == Val.ref(args_a), hh.field('kwargs')[msg_a] == Val.ref(kw_a),
                ForAll([j], Implies(And(0 <= j, j < n), hh.litem[args_a][j] == arg_spec(j, i))),
                ForAll([key], And(hh.dhas[kw_a][key] == KH0[key], hh.dval[kw_a][key] == kw_spec(key, i)))]
    cnt = itertools.count()
    def h_len(ex, st, e, recv, args, kw, k, K):
        if not isinstance(args[0], PyList): raise Unsupported("len() of " + ast.unparse(e.args[0]))
        return k(st, PyInt(st.heap.llen[args[0].addr]))
    def h_dict_get(ex, st, e, d, args, kw, k, K):
        kx = to_val(args[0]); dflt = to_val(args[1]) if len(args) > 1 else Val.none
        return k(st, If(st.heap.dhas[d.addr][kx], st.heap.dval[d.addr][kx], dflt))
    def h_parse_obj_as(ex, st, e, recv, args, kw, k, K):
        a, v = to_val(args[0]), to_val(args[1])
        ok = st.fork(); ok.pc.append(conv_ok(a, v))
        if ex.feasible(ok): k(ok, conv(a, v))
        for base in ('ValueError', 'RuntimeError'):
            f = st.fork(); f.pc.append(Not(conv_ok(a, v))); exc = raise_any(f, base)
            if ex.feasible(f): K['exc'](f, exc)
    def h_for(ex, s, st, k, K):
        it = s.iter; enum = isinstance(it, ast.Call) and ast.unparse(it.func) == 'enumerate'
        src_expr = it.args[0] if enum else it
        if ast.unparse(src_expr) not in ('signature.parameters', 'signature.parameters.keys()'): raise Unsupported("loop over " + ast.unparse(src_expr))
        if enum and not (isinstance(s.target, ast.Tuple) and len(s.target.elts) == 2): raise Unsupported("enumerate target")
        for nm, c in enumerate(Inv(st, IntVal(0))): oblige(st, f"parse_params/loop/inv-entry: {INV_TEXT[nm]}  [C08]", c, replay=RP)
        body_vars = {n_.id for n_ in ast.walk(s) if isinstance(n_, ast.Name) and isinstance(n_.ctx, ast.Store)}
        def havoc(s2):
            s2.heap = s2.heap.copy(); t = next(cnt)
            s2.heap.litem = Const(f'litem_h{t}', s2.heap.litem.sort()); s2.heap.dval = Const(f'dval_h{t}', s2.heap.dval.sort()); s2.heap.dhas = Const(f'dhas_h{t}', s2.heap.dhas.sort())
            s2.heap.llen = Const(f'llen_h{t}', s2.heap.llen.sort()); s2.heap.fld = {kx: Const(f'fld_{kx}_h{t}', VArr) for kx in s2.heap.fld}
            s2.env = dict(s2.env)
            for v in body_vars: s2.env[v] = fresh(v)
        # role binding: a local that is incremented in the loop and used as the positional index ("argnum") must equal the
        # parameter's position - this is the clause of the invariant the statement's "bound to the parameter the caller bound it to" needs.
        counters = [n_.target.id for n_ in ast.walk(s) if isinstance(n_, ast.AugAssign) and isinstance(n_.target, ast.Name) and isinstance(n_.op, ast.Add)]
        def counter_inv(s2, i):
            return [to_val(s2.env[c]) == Val.intv(i - 1) for c in counters if c in s2.env]
        for c in counter_inv(st, IntVal(0)): oblige(st, "parse_params/loop/inv-entry: the positional counter equals the position of the previous parameter  [C08]", c, replay=RP)
        it_st = st.fork(); havoc(it_st); i = fresh('i', IntSort())
        inv = Inv(it_st, i) + counter_inv(it_st, i); it_st.pc += [i >= 0, i < npar] + [c for c in inv if not is_quantifier(c)]; it_st.facts += [c for c in inv if is_quantifier(c)]
        if enum:
            it_st.env[s.target.elts[0].id] = PyInt(i); it_st.env[s.target.elts[1].id] = PS[i]
        else:
            if not isinstance(s.target, ast.Name): raise Unsupported("loop target")
            it_st.env[s.target.id] = PS[i]
        def back(s3):
            for nm, c in enumerate(Inv(s3, i + 1)): oblige(s3, f"parse_params/loop/inv-preserved: {INV_TEXT[nm]}  [C08]", c, witness={'position': i}, replay=RP)
            for c in counter_inv(s3, i + 1): oblige(s3, "parse_params/loop/inv-preserved: the positional counter equals the position of the current parameter (also for un-annotated parameters)  [C08]", c, witness={'position': i}, replay=RP)
        K2 = dict(K); K2['cont'] = back; K2['brk'] = lambda s3: oblige(s3, "parse_params/loop: no early exit  [C08]", BoolVal(False), replay=RP)
        ex.block(s.body, it_st, back, K2)
        out = st.fork(); havoc(out); inv = Inv(out, npar)
        out.pc += [c for c in inv if not is_quantifier(c)]; out.facts += [c for c in inv if is_quantifier(c)]
        return k(out)
    ex = Exec({'logger.*': noop, 'len': h_len, 'parse_obj_as': h_parse_obj_as, '@for': h_for, 'dict.get': h_dict_get},
              attr_kinds={'message.args': 'list', 'message.kwargs': 'dict'})
    exits = collections.Counter()
    def on_ret(s, v):
        exits['return'] += 1; hh = s.heap
        oblige(s, "parse_params/post: with parsing disabled (signature None) everything arrives as sent  [C08]", Implies(sig == Val.none, And(hh.litem[args_a] == A0, hh.dval[kw_a] == KW0, hh.dhas[kw_a] == KH0)), replay=RP)
        oblige(s, "parse_params/post: number of positional arguments unchanged  [C08]", hh.llen[args_a] == n, replay=RP)
        oblige(s, "parse_params/post: positional argument j is converted by the hint of parameter j (the parameter the caller bound it to), else unchanged  [C08]",
               Implies(sig != Val.none, ForAll([j], Implies(And(0 <= j, j < n), hh.litem[args_a][j] == arg_spec(j, npar)))), replay=RP)
        oblige(s, "parse_params/post: keyword argument k is converted by the hint of parameter k unless that parameter is bound positionally; key set unchanged  [C08]",
               Implies(sig != Val.none, ForAll([key], And(hh.dhas[kw_a][key] == KH0[key], hh.dval[kw_a][key] == kw_spec(key, npar)))), replay=RP)
        reach(s, f"parse_params/reach@return#{exits['return']}")
    def on_exc(s, exc):
        exits['raise'] += 1
        oblige(s, "parse_params/raises: a failed conversion (ValueError/RuntimeError) never escapes (run_task calls parse_params outside its try block: an escaping exception means the task function is never invoked)  [C08/C01]", BoolVal(False), replay=RP)
    ex.run(fdef, st, on_ret, on_exc)
    oblige(State(), "parse_params/total: every path returns normally - no conversion failure (ValueError/RuntimeError from the conversion) escapes, so run_task goes on to invoke the task function  [C08/C01]", BoolVal(exits['raise'] == 0), replay=RP)
    src.note_paths('::parse_params', sum(exits.values()))
    return {'exits': dict(exits)}
