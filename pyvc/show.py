"""summarise a unit report (debug aid)"""
import json, sys, collections
d = json.load(open(sys.argv[1])) if len(sys.argv) > 1 and sys.argv[1] != '-' else json.load(sys.stdin)
print(d['unit'], d['status'], d.get('error', ''), 'wall', d.get('wall_s'))
for l in d.get('traceback', []): print('  ', l)
if not all(d.get('edits_applied', [])): print('  WARNING: an --edit did not match any source text:', d.get('edits_applied'))
c = collections.Counter((o['status']) for o in d.get('obligations', []))
print(dict(c), 'functions', [(f['target'].split('::')[1], f.get('paths')) for f in d.get('functions', [])], d.get('info'))
seen = set()
for o in d.get('obligations', []):
    if o['status'] in ('proved', 'reachable', 'infeasible'): continue
    if o['name'] in seen and '-a' not in sys.argv: continue
    seen.add(o['name'])
    print(' ', o['status'], o['solver'], o['name'])
    if 'witness' in o: print('     witness', json.dumps(o['witness'])[:600])
