"""
Demo for property C10 (middleware hooks fire in the documented order, once per message).

Run as:  cd /tmp/wt/C10 && PYTHONPATH=/tmp/wt/C10 /venv/bin/python /tmp/wt/C10_out/keep1/demo.py

Exits 0 iff the property was observed in every scenario. It works on the original code
and on the code with change K1 (send timeout + send logging in AsyncKicker.kiq); scenarios
that use the new `with_send_timeout` API are only executed when the API exists.
"""

import asyncio
import itertools
import logging
import random
import sys
from typing import Any, AsyncGenerator, Dict, List, Optional, Tuple

from taskiq import AsyncBroker, NoResultError, SendTaskError, TaskiqMiddleware
from taskiq.abc.result_backend import AsyncResultBackend
from taskiq.kicker import AsyncKicker
from taskiq.message import BrokerMessage, TaskiqMessage
from taskiq.receiver import Receiver
from taskiq.result import TaskiqResult

logging.disable(logging.CRITICAL)  # keep the output readable; logs are not under test

HOOKS = ("pre_send", "post_send", "pre_execute", "on_error", "post_execute", "post_save")

# Global event log: (task_id, event, middleware index or None, extra)
EVENTS: List[Tuple[str, str, Optional[int], Any]] = []
FAILURES: List[str] = []


def rec(task_id: str, event: str, idx: Optional[int] = None, extra: Any = None) -> None:
    EVENTS.append((task_id, event, idx, extra))


def check(cond: bool, msg: str) -> None:
    if not cond:
        FAILURES.append(msg)


# ---------------------------------------------------------------------------
# Middleware factory: any subset of hooks, sync or async, replacing or mutating.
# ---------------------------------------------------------------------------
def make_middleware(
    idx: int,
    hooks: Tuple[str, ...],
    is_async: bool,
    replace: bool,
    yields: bool,
) -> TaskiqMiddleware:
    """Build a middleware overriding exactly `hooks`."""

    def transform(message: TaskiqMessage, label: str) -> TaskiqMessage:
        seen = str(message.labels.get(label, ""))
        if replace:
            new = message.model_copy(deep=True)
            new.labels[label] = seen + str(idx)
            return new
        message.labels[label] = seen + str(idx)
        return message

    ns: Dict[str, Any] = {}

    if is_async:

        async def pre_send(self: Any, message: TaskiqMessage) -> TaskiqMessage:
            seen = str(message.labels.get("strace", ""))
            if yields:
                await asyncio.sleep(0)
            rec(message.task_id, "pre_send", idx, seen)
            return transform(message, "strace")

        async def post_send(self: Any, message: TaskiqMessage) -> None:
            if yields:
                await asyncio.sleep(0)
            rec(message.task_id, "post_send", idx, str(message.labels.get("strace", "")))

        async def pre_execute(self: Any, message: TaskiqMessage) -> TaskiqMessage:
            seen = str(message.labels.get("etrace", ""))
            if yields:
                await asyncio.sleep(0)
            rec(message.task_id, "pre_execute", idx, seen)
            return transform(message, "etrace")

        async def on_error(
            self: Any,
            message: TaskiqMessage,
            result: "TaskiqResult[Any]",
            exception: BaseException,
        ) -> None:
            if yields:
                await asyncio.sleep(0)
            rec(message.task_id, "on_error", idx, type(exception).__name__)

        async def post_execute(
            self: Any,
            message: TaskiqMessage,
            result: "TaskiqResult[Any]",
        ) -> None:
            if yields:
                await asyncio.sleep(0)
            rec(message.task_id, "post_execute", idx, result.is_err)

        async def post_save(
            self: Any,
            message: TaskiqMessage,
            result: "TaskiqResult[Any]",
        ) -> None:
            if yields:
                await asyncio.sleep(0)
            rec(message.task_id, "post_save", idx, result.is_err)

    else:

        def pre_send(self: Any, message: TaskiqMessage) -> TaskiqMessage:  # type: ignore
            rec(message.task_id, "pre_send", idx, str(message.labels.get("strace", "")))
            return transform(message, "strace")

        def post_send(self: Any, message: TaskiqMessage) -> None:  # type: ignore
            rec(message.task_id, "post_send", idx, str(message.labels.get("strace", "")))

        def pre_execute(self: Any, message: TaskiqMessage) -> TaskiqMessage:  # type: ignore
            rec(
                message.task_id,
                "pre_execute",
                idx,
                str(message.labels.get("etrace", "")),
            )
            return transform(message, "etrace")

        def on_error(  # type: ignore
            self: Any,
            message: TaskiqMessage,
            result: "TaskiqResult[Any]",
            exception: BaseException,
        ) -> None:
            rec(message.task_id, "on_error", idx, type(exception).__name__)

        def post_execute(  # type: ignore
            self: Any,
            message: TaskiqMessage,
            result: "TaskiqResult[Any]",
        ) -> None:
            rec(message.task_id, "post_execute", idx, result.is_err)

        def post_save(  # type: ignore
            self: Any,
            message: TaskiqMessage,
            result: "TaskiqResult[Any]",
        ) -> None:
            rec(message.task_id, "post_save", idx, result.is_err)

    all_impls = {
        "pre_send": pre_send,
        "post_send": post_send,
        "pre_execute": pre_execute,
        "on_error": on_error,
        "post_execute": post_execute,
        "post_save": post_save,
    }
    for hook in hooks:
        ns[hook] = all_impls[hook]
    cls = type(f"MW{idx}", (TaskiqMiddleware,), ns)
    return cls()


# ---------------------------------------------------------------------------
# Recording broker and result backend.
# ---------------------------------------------------------------------------
class RecBackend(AsyncResultBackend[Any]):
    def __init__(self) -> None:
        self.fail_ids: set = set()
        self.results: Dict[str, Any] = {}

    async def set_result(self, task_id: str, result: "TaskiqResult[Any]") -> None:
        await asyncio.sleep(0)
        if task_id in self.fail_ids:
            rec(task_id, "store_failed")
            raise RuntimeError("result backend is down")
        self.results[task_id] = result
        rec(task_id, "stored")

    async def is_result_ready(self, task_id: str) -> bool:
        return task_id in self.results

    async def get_result(self, task_id: str, with_logs: bool = False) -> Any:
        return self.results[task_id]


class RecBroker(AsyncBroker):
    """Broker that records what it receives; optionally fails or is slow."""

    def __init__(self) -> None:
        super().__init__()
        self.result_backend = RecBackend()
        self.kick_mode: Dict[str, str] = {}  # task_id -> ok | fail | slow | slow_fail
        self.received: List[BrokerMessage] = []

    async def kick(self, message: BrokerMessage) -> None:
        mode = self.kick_mode.get(message.task_id, "ok")
        if mode in ("slow", "slow_fail", "hang"):
            await asyncio.sleep(30 if mode == "hang" else 0.01)
        if mode in ("fail", "slow_fail"):
            rec(message.task_id, "broker_failed")
            raise ConnectionError("queue is unreachable")
        self.received.append(message)
        strace = str(message.labels.get("strace", ""))
        rec(message.task_id, "broker_recv", None, strace)

    async def listen(self) -> AsyncGenerator[bytes, None]:  # pragma: no cover
        raise RuntimeError("not used")
        yield b""


class BadFormatter:
    """Formatter whose dumps fails: the send fails before the broker sees anything."""

    def dumps(self, message: TaskiqMessage) -> BrokerMessage:
        raise ValueError("cannot serialise")

    def loads(self, message: bytes) -> TaskiqMessage:  # pragma: no cover
        raise ValueError("cannot parse")


# ---------------------------------------------------------------------------
# Expected per-message traces.
# ---------------------------------------------------------------------------
def overriding(stack: List[Tuple[Tuple[str, ...], bool, bool, bool]], hook: str) -> List[int]:
    return [i for i, (hooks, _, _, _) in enumerate(stack) if hook in hooks]


def events_of(task_id: str) -> List[Tuple[str, Optional[int], Any]]:
    return [(e, i, x) for (t, e, i, x) in EVENTS if t == task_id]


def check_send(
    name: str,
    task_id: str,
    stack: List[Tuple[Tuple[str, ...], bool, bool, bool]],
    outcome: str,  # ok | broker_failed | not_delivered
    raised: Optional[BaseException],
) -> None:
    evs = events_of(task_id)
    pre = overriding(stack, "pre_send")
    post = overriding(stack, "post_send")
    expected: List[Tuple[str, Optional[int], Any]] = []
    seen = ""
    for i in pre:
        expected.append(("pre_send", i, seen))  # sees its predecessor's message
        seen += str(i)
    if outcome == "ok":
        expected.append(("broker_recv", None, seen))
        for i in post:
            expected.append(("post_send", i, seen))
        check(raised is None, f"{name}: unexpected exception {raised!r}")
    else:
        if outcome == "broker_failed":
            expected.append(("broker_failed", None, None))
        check(
            isinstance(raised, SendTaskError),
            f"{name}: failed send must raise SendTaskError, got {raised!r}",
        )
    send_evs = [e for e in evs if e[0] in ("pre_send", "broker_recv", "broker_failed", "post_send")]
    check(send_evs == expected, f"{name}: send trace {send_evs} != expected {expected}")


def check_exec(
    name: str,
    task_id: str,
    stack: List[Tuple[Tuple[str, ...], bool, bool, bool]],
    outcome: str,  # ok | raise | noresult | timeout
    store_fails: bool,
) -> None:
    evs = [
        e
        for e in events_of(task_id)
        if e[0]
        in (
            "pre_execute",
            "task_fn",
            "on_error",
            "post_execute",
            "stored",
            "store_failed",
            "post_save",
        )
    ]
    expected: List[Tuple[str, Optional[int], Any]] = []
    seen = ""
    for i in overriding(stack, "pre_execute"):
        expected.append(("pre_execute", i, seen))
        seen += str(i)
    expected.append(("task_fn", None, seen))  # the function sees the final message
    is_err = outcome != "ok"
    if is_err:
        exc_name = {
            "raise": "ValueError",
            "noresult": "NoResultError",
            "timeout": "TimeoutError",
        }[outcome]
        for i in overriding(stack, "on_error"):
            expected.append(("on_error", i, exc_name))
    for i in overriding(stack, "post_execute"):
        expected.append(("post_execute", i, is_err))
    if outcome != "noresult":
        if store_fails:
            expected.append(("store_failed", None, None))
        else:
            expected.append(("stored", None, None))
            for i in overriding(stack, "post_save"):
                expected.append(("post_save", i, is_err))
    check(evs == expected, f"{name}: exec trace {evs} != expected {expected}")


# ---------------------------------------------------------------------------
# Scenario runner.
# ---------------------------------------------------------------------------
def build(stack: List[Tuple[Tuple[str, ...], bool, bool, bool]]) -> Tuple[RecBroker, Any]:
    broker = RecBroker()
    broker.add_middlewares(
        *[
            make_middleware(i, hooks, is_async, replace, yields)
            for i, (hooks, is_async, replace, yields) in enumerate(stack)
        ],
    )

    from taskiq import Context, TaskiqDepends

    @broker.task(task_name="demo_async")
    async def demo_async(mode: str, ctx: Context = TaskiqDepends()) -> str:
        rec(ctx.message.task_id, "task_fn", None, str(ctx.message.labels.get("etrace", "")))
        await asyncio.sleep(0)
        if mode == "raise":
            raise ValueError("boom")
        if mode == "noresult":
            raise NoResultError
        if mode == "timeout":
            await asyncio.sleep(5)
        return "done"

    @broker.task(task_name="demo_sync")
    def demo_sync(mode: str, ctx: Context = TaskiqDepends()) -> str:
        rec(ctx.message.task_id, "task_fn", None, str(ctx.message.labels.get("etrace", "")))
        if mode == "raise":
            raise ValueError("boom")
        if mode == "noresult":
            raise NoResultError
        return "done"

    return broker, (demo_async, demo_sync)


async def send_one(
    broker: RecBroker,
    task: Any,
    task_id: str,
    mode: str,
    labels: Optional[Dict[str, Any]] = None,
    send_timeout: Optional[float] = None,
) -> Optional[BaseException]:
    kicker = task.kicker().with_task_id(task_id)
    if labels:
        kicker = kicker.with_labels(**labels)
    if send_timeout is not None:
        kicker = kicker.with_send_timeout(send_timeout)
    try:
        await kicker.kiq(mode)
    except BaseException as exc:  # noqa: BLE001
        return exc
    return None


COUNTER = itertools.count()


async def run_stack(
    stack: List[Tuple[Tuple[str, ...], bool, bool, bool]],
    rng: random.Random,
) -> None:
    """All send outcomes and all execution outcomes on one middleware stack."""
    broker, (demo_async, demo_sync) = build(stack)
    receiver = Receiver(broker, max_async_tasks=10, run_startup=False)
    sid = next(COUNTER)

    # ---- sends: ok / failing broker / slow failing broker, sequential ----
    plan = []
    for kick_mode in ("ok", "fail", "slow", "slow_fail"):
        task_id = f"s{sid}-{kick_mode}"
        broker.kick_mode[task_id] = kick_mode
        plan.append((task_id, kick_mode))
    # concurrent sends: all interleavings are checked per message
    raised = await asyncio.gather(
        *[send_one(broker, demo_async, task_id, "ok") for task_id, _ in plan],
    )
    for (task_id, kick_mode), exc in zip(plan, raised):
        outcome = "ok" if kick_mode in ("ok", "slow") else "broker_failed"
        check_send(f"stack{sid}/{kick_mode}", task_id, stack, outcome, exc)

    # ---- send with a formatter that cannot serialise ----
    good_formatter = broker.formatter
    broker.formatter = BadFormatter()  # type: ignore
    task_id = f"s{sid}-badfmt"
    exc = await send_one(broker, demo_async, task_id, "ok")
    broker.formatter = good_formatter
    check_send(f"stack{sid}/badfmt", task_id, stack, "not_delivered", exc)

    # ---- K1 only: send timeout (new API), when available ----
    if hasattr(AsyncKicker, "with_send_timeout"):
        task_id = f"s{sid}-hang"
        broker.kick_mode[task_id] = "hang"
        exc = await send_one(broker, demo_async, task_id, "ok", send_timeout=0.02)
        check_send(f"stack{sid}/timeout", task_id, stack, "not_delivered", exc)
        task_id = f"s{sid}-slow-in-time"
        broker.kick_mode[task_id] = "slow"
        exc = await send_one(broker, demo_async, task_id, "ok", send_timeout=5)
        check_send(f"stack{sid}/in-time", task_id, stack, "ok", exc)
        task_id = f"s{sid}-fail-with-timeout"
        broker.kick_mode[task_id] = "slow_fail"
        exc = await send_one(broker, demo_async, task_id, "ok", send_timeout=5)
        check_send(f"stack{sid}/fail-with-timeout", task_id, stack, "broker_failed", exc)

    # ---- executions: messages go through a real send first, then through
    # Receiver.callback, concurrently. ----
    exec_plan = []
    for task, kind in ((demo_async, "a"), (demo_sync, "s")):
        for outcome in ("ok", "raise", "noresult", "timeout"):
            if kind == "s" and outcome == "timeout":
                continue
            for store_fails in (False, True):
                task_id = f"e{sid}-{kind}-{outcome}-{int(store_fails)}"
                if store_fails:
                    broker.result_backend.fail_ids.add(task_id)  # type: ignore
                labels = {"timeout": 0.05} if outcome == "timeout" else None
                exc = await send_one(broker, task, task_id, outcome, labels)
                check(exc is None, f"{task_id}: send failed {exc!r}")
                exec_plan.append((task_id, outcome, store_fails))
    by_id = {m.task_id: m for m in broker.received}
    order = list(exec_plan)
    rng.shuffle(order)
    await asyncio.gather(
        *[receiver.callback(by_id[task_id].message) for task_id, _, _ in order],
    )
    for task_id, outcome, store_fails in exec_plan:
        check_exec(f"stack{sid}/{task_id}", task_id, stack, outcome, store_fails)
        check_send(f"stack{sid}/{task_id}", task_id, stack, "ok", None)


def all_stacks(rng: random.Random) -> List[List[Tuple[Tuple[str, ...], bool, bool, bool]]]:
    stacks: List[List[Tuple[Tuple[str, ...], bool, bool, bool]]] = [[]]
    # single middlewares: every hook alone, all hooks, sync/async, replace/mutate
    for is_async in (False, True):
        for replace in (False, True):
            stacks.append([(HOOKS, is_async, replace, is_async)])
        for hook in HOOKS:
            stacks.append([((hook,), is_async, True, False)])
    # seeded random stacks of 2 and 3 middlewares with arbitrary subsets
    for size in (2, 3):
        for _ in range(14):
            stack = []
            for _ in range(size):
                hooks = tuple(h for h in HOOKS if rng.random() < 0.6)
                stack.append(
                    (hooks, rng.random() < 0.5, rng.random() < 0.5, rng.random() < 0.5),
                )
            stacks.append(stack)
    # full stacks: three middlewares overriding everything
    stacks.append([(HOOKS, False, False, False)] * 3)
    stacks.append([(HOOKS, True, True, True)] * 3)
    stacks.append([(HOOKS, True, False, True), (HOOKS, False, True, False), (HOOKS, True, True, False)])
    return stacks


async def main() -> int:
    rng = random.Random(1010)
    stacks = all_stacks(rng)
    for stack in stacks:
        await run_stack(stack, rng)
    extra = " (+ send-timeout scenarios)" if hasattr(AsyncKicker, "with_send_timeout") else ""
    if FAILURES:
        print(f"C10 VIOLATED in {len(FAILURES)} checks:")
        for failure in FAILURES[:20]:
            print("  -", failure)
        return 1
    print(
        f"C10 holds: {len(stacks)} middleware stacks, {len(EVENTS)} recorded events{extra}",
    )
    return 0


if __name__ == "__main__":
    sys.exit(asyncio.run(main()))
