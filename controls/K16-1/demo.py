"""
Demo / check of property C16 (scheduled sends and the label based source).

Run as:
    cd /tmp/wt/C16 && PYTHONPATH=/tmp/wt/C16 /venv/bin/python <this file>

The script exits 0 iff every checked scenario satisfies the property:

 part 1 (TaskiqScheduler.on_ready, also through cli delayed_send):
   * pre_send runs first and may cancel; then nothing is sent and post_send
     is not called;
   * otherwise exactly one message is sent, carrying the schedule's task name,
     args, kwargs and labels plus the schedule_id label, and post_send runs
     after the send;
   * sync and async pre_send / post_send, cancelling or not;
   * faults: pre_send raising an unrelated error, the broker failing to send.

 part 2 (LabelScheduleSource):
   * get_schedules lists exactly the cron/time entries declared on the tasks
     of the source's own broker (invalid entries and foreign tasks skipped);
   * after a one-shot entry fired, exactly one entry with that time is removed
     from the firing task and no other entry of any task is touched, for all
     orders in which the one-shot entries fire.

It is deterministic (no wall clock dependence, no sleeping, no randomness).
"""

import asyncio
import itertools
import logging
import sys
from datetime import datetime, timedelta
from typing import Any, Dict, List, Optional, Tuple

from taskiq import InMemoryBroker
from taskiq.abc.broker import AsyncBroker
from taskiq.abc.schedule_source import ScheduleSource
from taskiq.cli.scheduler.run import delayed_send
from taskiq.exceptions import ScheduledTaskCancelledError, SendTaskError
from taskiq.labels import prepare_label
from taskiq.message import BrokerMessage
from taskiq.schedule_sources.label_based import LabelScheduleSource
from taskiq.scheduler.scheduled_task import ScheduledTask
from taskiq.scheduler.scheduler import TaskiqScheduler

logging.disable(logging.CRITICAL)

PROBLEMS: List[str] = []


def check(cond: bool, msg: str) -> None:
    """Record a problem when `cond` is false."""
    if not cond:
        PROBLEMS.append(msg)


class RecordingBroker(InMemoryBroker):
    """Broker that records what is sent instead of executing it."""

    def __init__(self, events: Optional[List[Any]] = None, fail: bool = False) -> None:
        super().__init__()
        self.events: List[Any] = events if events is not None else []
        self.sent: List[BrokerMessage] = []
        self.fail = fail

    async def kick(self, message: BrokerMessage) -> None:
        """Record the message (or fail)."""
        if self.fail:
            self.events.append("kick-failed")
            raise ConnectionError("broker is down")
        self.sent.append(message)
        self.events.append("kick")


class Boom(Exception):
    """Unrelated error raised by a faulty source."""


class HookSource(ScheduleSource):
    """Source with configurable sync/async, cancelling/faulty callbacks."""

    def __init__(
        self,
        events: List[Any],
        pre_async: bool,
        post_async: bool,
        pre_outcome: str,  # "ok" | "cancel" | "boom"
    ) -> None:
        self.events = events
        self.pre_async = pre_async
        self.post_async = post_async
        self.pre_outcome = pre_outcome

    async def get_schedules(self) -> List[ScheduledTask]:
        """Nothing listed, schedules are fired by hand."""
        return []

    def _pre(self, task: ScheduledTask) -> None:
        self.events.append(("pre", task.schedule_id))
        if self.pre_outcome == "cancel":
            raise ScheduledTaskCancelledError
        if self.pre_outcome == "boom":
            raise Boom("pre_send is broken")

    def _post(self, task: ScheduledTask) -> None:
        self.events.append(("post", task.schedule_id))

    def pre_send(self, task: ScheduledTask) -> Any:
        """Sync or async pre_send."""
        if self.pre_async:

            async def _inner() -> None:
                await asyncio.sleep(0)
                self._pre(task)

            return _inner()
        return self._pre(task)

    def post_send(self, task: ScheduledTask) -> Any:
        """Sync or async post_send."""
        if self.post_async:

            async def _inner() -> None:
                await asyncio.sleep(0)
                self._post(task)

            return _inner()
        return self._post(task)


def expected_labels(labels: Dict[str, Any], schedule_id: str) -> Dict[str, str]:
    """Labels of the wire message: prepared schedule labels + schedule_id."""
    result = {key: prepare_label(val)[0] for key, val in labels.items()}
    result["schedule_id"] = schedule_id
    return result


def check_message(
    where: str,
    broker: RecordingBroker,
    raw: BrokerMessage,
    sched: ScheduledTask,
    want: Optional[Dict[str, str]] = None,
) -> None:
    """
    The sent message carries the payload of the schedule.

    `want` are the expected wire labels when they had to be computed before the
    fire (label values of listed schedules alias the live, mutable label list).
    """
    msg = broker.formatter.loads(raw.message)
    check(raw.task_name == sched.task_name, f"{where}: wire task_name {raw.task_name}")
    check(msg.task_name == sched.task_name, f"{where}: task_name {msg.task_name}")
    check(list(msg.args) == list(sched.args), f"{where}: args {msg.args}")
    check(dict(msg.kwargs) == dict(sched.kwargs), f"{where}: kwargs {msg.kwargs}")
    if want is None:
        want = expected_labels(sched.labels, sched.schedule_id)
    check(dict(msg.labels) == want, f"{where}: labels {msg.labels} != {want}")
    check(
        raw.labels.get("schedule_id") == sched.schedule_id,
        f"{where}: wire schedule_id label {raw.labels.get('schedule_id')}",
    )


PAYLOADS: List[Tuple[List[Any], Dict[str, Any], Dict[str, Any]]] = [
    ([], {}, {}),
    ([1, "two", 3.5, None, [1, 2], {"a": 1}], {"x": 1, "y": {"z": [True]}}, {}),
    ([0], {"flag": False}, {"prio": 3, "queue": "fast", "ratio": 0.5, "on": True}),
    # a stale schedule_id label of the schedule itself must be overridden
    (["a"], {"k": "v"}, {"schedule_id": "stale", "retry_on_error": True}),
]


async def part1_on_ready() -> None:
    """pre_send / send / post_send protocol of TaskiqScheduler.on_ready."""
    number = 0
    for pre_async, post_async, outcome, via_cli, use_time in itertools.product(
        (False, True),
        (False, True),
        ("ok", "cancel", "boom"),
        (False, True),
        (False, True),
    ):
        for args, kwargs, labels in PAYLOADS:
            number += 1
            where = (
                f"on_ready#{number}(pre_async={pre_async}, post_async={post_async}, "
                f"pre={outcome}, cli={via_cli}, time={use_time})"
            )
            events: List[Any] = []
            broker = RecordingBroker(events)
            source = HookSource(events, pre_async, post_async, outcome)
            scheduler = TaskiqScheduler(broker=broker, sources=[source])
            sched = ScheduledTask(
                task_name=f"mod:task_{number}",
                labels=dict(labels),
                args=list(args),
                kwargs=dict(kwargs),
                schedule_id=f"sid-{number}",
                cron=None if use_time else "*/5 * * * *",
                time=datetime(2030, 1, 1, 12, 0) if use_time else None,
            )
            raised: Optional[BaseException] = None
            try:
                if via_cli:
                    await delayed_send(scheduler, source, sched, 0)
                else:
                    await scheduler.on_ready(source, sched)
            except Exception as exc:  # noqa: BLE001
                raised = exc

            sid = sched.schedule_id
            if outcome == "ok":
                check(raised is None, f"{where}: raised {raised!r}")
                check(
                    events == [("pre", sid), "kick", ("post", sid)],
                    f"{where}: events {events}",
                )
                check(len(broker.sent) == 1, f"{where}: {len(broker.sent)} messages")
                if len(broker.sent) == 1:
                    check_message(where, broker, broker.sent[0], sched)
            elif outcome == "cancel":
                check(raised is None, f"{where}: cancel leaked {raised!r}")
                check(events == [("pre", sid)], f"{where}: events {events}")
                check(not broker.sent, f"{where}: sent although cancelled")
            else:
                check(isinstance(raised, Boom), f"{where}: raised {raised!r}")
                check(events == [("pre", sid)], f"{where}: events {events}")
                check(not broker.sent, f"{where}: sent although pre_send failed")

    # Fault: the broker cannot send.  Nothing was sent, so post_send (which for
    # the label source would drop the one-shot entry) must not have run before
    # a successful send; pre_send still ran first.
    for pre_async, post_async in itertools.product((False, True), repeat=2):
        where = f"on_ready-kickfail(pre_async={pre_async}, post_async={post_async})"
        events = []
        broker = RecordingBroker(events, fail=True)
        source = HookSource(events, pre_async, post_async, "ok")
        scheduler = TaskiqScheduler(broker=broker, sources=[source])
        sched = ScheduledTask(
            task_name="mod:failing",
            labels={"a": 1},
            args=[1],
            kwargs={"b": 2},
            cron="* * * * *",
        )
        raised = None
        try:
            await scheduler.on_ready(source, sched)
        except Exception as exc:  # noqa: BLE001
            raised = exc
        check(bool(events) and events[0] == ("pre", sched.schedule_id), f"{where}: {events}")
        check(not broker.sent, f"{where}: a message was sent")
        check("kick" not in events, f"{where}: {events}")
        if ("post", sched.schedule_id) in events:
            check(False, f"{where}: post_send ran although nothing was sent: {events}")
        check(isinstance(raised, SendTaskError), f"{where}: raised {raised!r}")

    # Several schedules firing concurrently: each one is sent exactly once and
    # per schedule the order pre < kick < post holds.
    events = []
    broker = RecordingBroker(events)
    source = HookSource(events, True, True, "ok")
    scheduler = TaskiqScheduler(broker=broker, sources=[source])
    scheds = [
        ScheduledTask(
            task_name=f"mod:conc_{i}",
            labels={"n": i},
            args=[i],
            kwargs={"i": i},
            schedule_id=f"conc-{i}",
            cron="* * * * *",
        )
        for i in range(5)
    ]
    await asyncio.gather(*(delayed_send(scheduler, source, s, 0) for s in scheds))
    check(len(broker.sent) == len(scheds), f"concurrent: {len(broker.sent)} messages")
    by_sid = {raw.labels.get("schedule_id"): raw for raw in broker.sent}
    for sched in scheds:
        where = f"concurrent[{sched.schedule_id}]"
        check(sched.schedule_id in by_sid, f"{where}: not sent")
        if sched.schedule_id in by_sid:
            check_message(where, broker, by_sid[sched.schedule_id], sched)
        check(
            events.count(("pre", sched.schedule_id)) == 1
            and events.count(("post", sched.schedule_id)) == 1,
            f"{where}: hooks {events}",
        )
        if ("pre", sched.schedule_id) in events and ("post", sched.schedule_id) in events:
            check(
                events.index(("pre", sched.schedule_id))
                < events.index(("post", sched.schedule_id)),
                f"{where}: post before pre",
            )


# --------------------------------------------------------------------------
# part 2: label based source
# --------------------------------------------------------------------------

T0 = datetime(2031, 5, 17, 8, 30, 0)
T1 = T0 + timedelta(hours=1)
T2 = T0 + timedelta(days=2, microseconds=7)


def declarations() -> Dict[str, List[Dict[str, Any]]]:
    """Schedule labels of the own-broker tasks (fresh objects on every call)."""
    return {
        "own:alpha": [
            {"cron": "*/2 * * * *", "args": [1], "labels": {"src": "cron-a"}},
            {"time": T0, "args": ["a-t0-first"]},
            {"args": ["invalid: neither cron nor time"]},
            {"time": T1, "kwargs": {"k": "a-t1"}, "labels": {"prio": 7}},
            {"cron": "0 0 * * *", "cron_offset": "Europe/Berlin"},
            {"time": T0, "args": ["a-t0-second"]},  # equal time, duplicate
            {},  # invalid
            {"time": T0, "args": ["a-t0-first"]},  # exact duplicate of entry 1
        ],
        "own:beta": [
            {"time": T0, "args": ["b-t0"]},  # same time as in the other task
            {"cron": "*/2 * * * *", "args": [1], "labels": {"src": "cron-a"}},
            {"time": T2},
        ],
        "own:gamma": [],  # empty schedule list
        "own:delta": [{"labels": {"only": "labels"}}, {"kwargs": {"x": 1}}],
    }


class World:
    """A broker with own tasks, a foreign task and a task without schedules."""

    def __init__(self) -> None:
        self.broker = RecordingBroker()
        self.foreign_broker = RecordingBroker()
        self.decl = declarations()
        self.tasks: Dict[str, Any] = {}
        for name, entries in self.decl.items():
            self.tasks[name] = self.broker.register_task(
                _noop,
                task_name=name,
                schedule=entries,
                owner=name,
            )
        self.tasks["own:plain"] = self.broker.register_task(
            _noop,
            task_name="own:plain",
            some="label",
        )
        # A foreign task (other broker) visible through the global registry.
        self.foreign_decl = [
            {"cron": "* * * * *", "args": ["foreign-cron"]},
            {"time": T0, "args": ["foreign-t0"]},
        ]
        self.foreign_task = self.foreign_broker.register_task(
            _noop,
            task_name="foreign:task",
            schedule=self.foreign_decl,
        )
        AsyncBroker.global_task_registry["foreign:task"] = self.foreign_task
        self.source = LabelScheduleSource(self.broker)
        self.scheduler = TaskiqScheduler(self.broker, [self.source])

    def close(self) -> None:
        """Drop the global registration again."""
        AsyncBroker.global_task_registry.pop("foreign:task", None)

    def live(self, name: str) -> List[Dict[str, Any]]:
        """Live schedule list of a task."""
        if name == "foreign:task":
            return self.foreign_task.labels["schedule"]
        return self.tasks[name].labels["schedule"]


def _noop(*_args: Any, **_kwargs: Any) -> None:
    """Task body, never executed."""


def listing_key(sched: ScheduledTask) -> Tuple[Any, ...]:
    """Comparable view of a listed schedule (labels checked separately)."""
    return (
        sched.task_name,
        sched.cron,
        sched.time,
        repr(sched.cron_offset),
        repr(list(sched.args)),
        repr(sorted(sched.kwargs.items())),
    )


def expected_listing(
    state: Dict[str, List[Dict[str, Any]]],
) -> List[Tuple[Any, ...]]:
    """Exactly the cron/time entries of the own tasks."""
    result = []
    for name, entries in state.items():
        for entry in entries:
            if "cron" not in entry and "time" not in entry:
                continue
            result.append(
                (
                    name,
                    entry.get("cron"),
                    entry.get("time"),
                    repr(entry.get("cron_offset")),
                    repr(list(entry.get("args", []))),
                    repr(sorted(entry.get("kwargs", {}).items())),
                ),
            )
    return result


async def check_listing(where: str, world: World, state: Dict[str, Any]) -> List[ScheduledTask]:
    """get_schedules lists exactly the declared cron/time entries."""
    listed = await world.source.get_schedules()
    got = sorted(map(repr, map(listing_key, listed)))
    want = sorted(map(repr, expected_listing(state)))
    check(got == want, f"{where}: listing differs:\n   got  {got}\n   want {want}")
    check(
        all(s.task_name != "foreign:task" for s in listed),
        f"{where}: foreign task listed",
    )
    ids = [s.schedule_id for s in listed]
    check(len(set(ids)) == len(ids), f"{where}: schedule ids not unique")
    for sched in listed:
        # labels: the labels of the task (incl. the owner marker) are carried.
        check(
            sched.labels.get("owner") == sched.task_name,
            f"{where}: labels of {sched.task_name} lack task labels: {sched.labels}",
        )
        check("schedule" in sched.labels, f"{where}: schedule label missing")
    return listed


def snapshot(world: World) -> Dict[str, List[int]]:
    """Identities of the live entries of every task (own and foreign)."""
    names = [*world.decl.keys(), "foreign:task"]
    return {name: [id(e) for e in world.live(name)] for name in names}


async def run_order(order_no: int, order: Tuple[int, ...], cancel_at: int) -> None:
    """Fire the one-shot entries in the given order and watch the label lists."""
    world = World()
    try:
        where0 = f"order#{order_no}{order}"
        # model: task -> list of the declared entry objects still present
        model = {name: list(world.live(name)) for name in world.decl}
        keep_alive = [e for entries in model.values() for e in entries]  # stable ids
        listed = await check_listing(where0 + " initial", world, model)
        one_shots = [s for s in listed if s.time is not None and not s.cron]
        check(len(one_shots) == 6, f"{where0}: {len(one_shots)} one-shot schedules")
        foreign_before = list(world.foreign_task.labels["schedule"])

        sent_before = 0
        for step, pos in enumerate(order):
            fired = one_shots[pos]
            where = f"{where0} step {step} fire {fired.task_name}@{fired.time}"
            before = snapshot(world)
            if step == cancel_at:
                # A cancelling wrapper source: nothing is sent, post_send of the
                # label source is not reached, nothing is removed.
                class Cancelling(LabelScheduleSource):
                    def pre_send(self, task: ScheduledTask) -> None:
                        raise ScheduledTaskCancelledError

                await world.scheduler.on_ready(Cancelling(world.broker), fired)
                check(len(world.broker.sent) == sent_before, f"{where}: sent on cancel")
                check(snapshot(world) == before, f"{where}: entries changed on cancel")
                continue
            want = expected_labels(fired.labels, fired.schedule_id)
            await world.scheduler.on_ready(world.source, fired)
            sent_before += 1
            check(
                len(world.broker.sent) == sent_before,
                f"{where}: {len(world.broker.sent)} messages, want {sent_before}",
            )
            if world.broker.sent:
                check_message(where, world.broker, world.broker.sent[-1], fired, want)
            after = snapshot(world)
            for name in before:
                if name != fired.task_name:
                    check(
                        after[name] == before[name],
                        f"{where}: entries of other task {name} changed",
                    )
                    continue
                removed = [i for i in before[name] if i not in after[name]]
                check(len(removed) == 1, f"{where}: removed {len(removed)} entries")
                check(
                    after[name] == [i for i in before[name] if i not in removed],
                    f"{where}: remaining entries reordered/replaced",
                )
                for entry in model[name]:
                    if id(entry) in removed:
                        check(
                            entry.get("time") == fired.time and "cron" not in entry,
                            f"{where}: removed wrong entry {entry}",
                        )
                model[name] = [e for e in model[name] if id(e) not in removed]
            # the listing follows the declarations that are left
            await check_listing(where + " relist", world, model)

        # firing a cron schedule never removes anything
        listed = await world.source.get_schedules()
        before = snapshot(world)
        for sched in listed:
            if sched.cron:
                await world.scheduler.on_ready(world.source, sched)
        check(snapshot(world) == before, f"{where0}: cron fire removed entries")
        check(
            len(world.foreign_task.labels["schedule"]) == len(foreign_before)
            and all(
                a is b
                for a, b in zip(world.foreign_task.labels["schedule"], foreign_before)
            ),
            f"{where0}: foreign entries changed",
        )
        if cancel_at < 0:
            # every one-shot fired once: no time entries are left on own tasks
            left = [
                e for name in world.decl for e in world.live(name) if "time" in e
            ]
            check(not left, f"{where0}: one-shot entries left: {left}")
        del keep_alive
    finally:
        world.close()


async def part2_label_source() -> None:
    """All 720 firing orders of the six one-shot entries (+ cancel variants)."""
    for order_no, order in enumerate(itertools.permutations(range(6))):
        cancel_at = -1 if order_no % 5 else order_no % 6
        await run_order(order_no, order, cancel_at)

    # A one-shot schedule of a foreign task handed to post_send removes nothing
    # anywhere (the foreign task is not one of the source's entries).
    world = World()
    try:
        before = snapshot(world)
        foreign = ScheduledTask(
            task_name="foreign:task",
            labels={},
            args=[],
            kwargs={},
            time=T0,
        )
        await world.scheduler.on_ready(world.source, foreign)
        check(len(world.broker.sent) == 1, "foreign fire: not sent exactly once")
        check(snapshot(world) == before, "foreign fire: entries changed")
        # unknown task / time that matches nothing: nothing removed
        for name, when in (("own:unknown", T0), ("own:alpha", T2), ("own:gamma", T0)):
            sched = ScheduledTask(task_name=name, labels={}, args=[], kwargs={}, time=when)
            await world.scheduler.on_ready(world.source, sched)
            check(snapshot(world) == before, f"no-match fire {name}@{when}: changed")
    finally:
        world.close()

    # Registry shapes: (a) a foreign task registered globally under the name of
    # an own (local) task is shadowed by the own task; (b) an own task that is
    # only known through the global registry is a task of the own broker.
    world = World()
    shadow = world.foreign_broker.register_task(
        _noop,
        task_name="own:beta",
        schedule=[{"time": T0, "args": ["shadow-t0"]}, {"cron": "1 1 1 1 1"}],
    )
    AsyncBroker.global_task_registry["own:beta"] = shadow
    global_entries = [{"time": T1, "args": ["g-t1"]}, {"time": T1}, {"cron": "2 2 * * *"}]
    own_global = world.broker.register_task(
        _noop,
        task_name="own:global",
        schedule=global_entries,
        owner="own:global",
    )
    del world.broker.local_task_registry["own:global"]
    AsyncBroker.global_task_registry["own:global"] = own_global
    try:
        state = {name: list(world.live(name)) for name in world.decl}
        state["own:global"] = list(global_entries)
        listed = await check_listing("registry shapes", world, state)
        shadow_before = list(shadow.labels["schedule"])
        for sched in [s for s in listed if s.time is not None]:
            name = sched.task_name
            live = own_global.labels["schedule"] if name == "own:global" else world.live(name)
            before_ids = [id(e) for e in live]
            others = snapshot(world)
            await world.scheduler.on_ready(world.source, sched)
            removed = [e for e in state[name] if id(e) not in [id(x) for x in live]]
            check(
                len(removed) == 1 and removed[0].get("time") == sched.time,
                f"registry shapes {name}@{sched.time}: removed {removed}",
            )
            check(
                [id(e) for e in live] == [i for i in before_ids if i != id(removed[0])]
                if removed
                else False,
                f"registry shapes {name}@{sched.time}: remaining entries changed",
            )
            state[name] = [e for e in state[name] if e is not removed[0]] if removed else state[name]
            now = snapshot(world)
            for other in others:
                if other != name:
                    check(now[other] == others[other], f"registry shapes: {other} changed")
            await check_listing(f"registry shapes after {name}@{sched.time}", world, state)
        check(
            len(shadow.labels["schedule"]) == len(shadow_before)
            and all(a is b for a, b in zip(shadow.labels["schedule"], shadow_before)),
            "registry shapes: shadowed foreign task lost entries",
        )
        check(
            [e for e in own_global.labels["schedule"]] == [global_entries[-1]]
            and own_global.labels["schedule"][0] is state["own:global"][0],
            f"registry shapes: own global task left with {own_global.labels['schedule']}",
        )
    finally:
        AsyncBroker.global_task_registry.pop("own:beta", None)
        AsyncBroker.global_task_registry.pop("own:global", None)
        world.close()


async def main() -> int:
    """Run all scenarios."""
    await part1_on_ready()
    await part2_label_source()
    if PROBLEMS:
        print(f"C16 VIOLATED in {len(PROBLEMS)} checks, first ones:")
        for line in PROBLEMS[:25]:
            print("  -", line[:400])
        return 1
    print("OK: C16 holds on all scenarios (on_ready protocol, label source).")
    return 0


if __name__ == "__main__":
    sys.exit(asyncio.run(main()))
