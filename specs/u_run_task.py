"""Unit `run_task`: taskiq/receiver/receiver.py::Receiver.run_task — C01 (exactly one invocation), C06 (ownership of the dependency
cache), C07 (result reflects the outcome, timeout enforced), C08 (call-site binding), C10 (on_error hooks), C12 (teardown).

Ghost monitor of DESIGN Appendix A.2 (invoke / teardown / result / on_error).  `parse_params`, `Context(...)`, the dependency
graph and the task function are used through contracts; `taskiq_dependencies` is external (assumed contract: async_ctx keeps a
REFERENCE to the initial cache and reads it at later suspension points, hence `requires fresh(cache)`)."""
import ast, re
from z3 import *
from pyvc.core import *

PROPS = ['C01', 'C06', 'C07', 'C08', 'C10', 'C12']
REPLAY = {'driver': 'callback'}
REL = 'taskiq/receiver/receiver.py'
TRUSTED = [
    "taskiq_dependencies (external): graph.async_ctx(cache, overrides) keeps a reference to `cache` and reads it at later suspension points => requires fresh(cache)",
    "taskiq_dependencies (external): resolve_kwargs() may raise any BaseException; close(*exc_info) finalises every opened dependency once, throws exc_info[1] into generators iff it is not None, may raise Exception",
    "the task function (target) may return any value or raise any BaseException; asyncio.wait_for(aw, t) yields aw's outcome or TimeoutError after cancelling aw",
    "loop.run_in_executor(ex, f, *a) runs f(*a) once in the executor; its future has f's outcome",
    "parse_params contract (unit u_parse_params): mutates message.args / message.kwargs values in place only; may raise (escapes run_task)",
    "TaskiqResult(...) keeps the fields it is given (pydantic construction assumed to accept them)",
    "middleware.on_error is user code: may raise any Exception; sync or async",
    "timeout label is None or float-convertible (a malformed label raises inside the try after a sync function was submitted: DESIGN 2.13 (iii))",
]


def generate(src):
    fdef = src.func(REL, 'Receiver.run_task')
    # ---- role binding: locals are identified by what they are assigned from / used for, not by their names
    def assigned_from(pred, what):
        for n_ in ast.walk(fdef):
            if isinstance(n_, ast.Assign) and len(n_.targets) == 1 and isinstance(n_.targets[0], ast.Name):
                v_ = n_.value.value if isinstance(n_.value, ast.Await) else n_.value
                if isinstance(v_, ast.Call) and pred(ast.unparse(v_.func)): return n_.targets[0].id
        raise Unsupported(f"run_task: no local is assigned from {what}")
    GRAPH = assigned_from(lambda f: f == 'self.dependency_graphs.get', 'self.dependency_graphs.get(...)')
    DEPCTX = assigned_from(lambda f: f == GRAPH + '.async_ctx', GRAPH + '.async_ctx(...)')
    handlers_as = {h_.name for n_ in ast.walk(fdef) if isinstance(n_, ast.Try) for h_ in n_.handlers if h_.name}
    found = {n_.targets[0].id for n_ in ast.walk(fdef) if isinstance(n_, ast.Assign) and isinstance(n_.targets[0], ast.Name) and isinstance(n_.value, ast.Name) and n_.value.id in handlers_as}
    if len(found) != 1: raise Unsupported("run_task: expected exactly one local that records the caught exception")
    FOUND = found.pop()
    tcalls = [n_ for n_ in ast.walk(fdef) if isinstance(n_, ast.Call) and ast.unparse(n_.func) == 'target' and any(k_.arg is None for k_ in n_.keywords)]
    if len(tcalls) != 1 or not isinstance([k_ for k_ in tcalls[0].keywords if k_.arg is None][0].value, ast.Name): raise Unsupported("run_task: expected one call target(*args, **<kwargs local>)")
    KWARGS = [k_ for k_ in tcalls[0].keywords if k_.arg is None][0].value.id
    for n, p in [('TaskiqError', 'Exception'), ('NoResultError', 'TaskiqError')]: CLS.add(n, p)
    propagate = Bool('propagate_exceptions'); is_coro_fn = Bool('target_is_coroutine_function'); has_graph = Bool('has_dependency_graph')
    over = Function('over_on_error', IntSort(), BoolSort()); hook_async = Function('on_error_is_async', IntSort(), BoolSort()); NMW = Int('n_middlewares')
    self_a, msg_a, shared_ctx_a, margs_a, mkw_a, mlabels_a, broker_a = Ints('self_a msg_a shared_ctx_a margs_a mkw_a mlabels_a broker_a')
    next0 = Int('next0'); j = Int('j')
    CONTEXT_KEY = STR.get('<class Context>'); STATE_KEY = STR.get('<class TaskiqState>'); TIMEOUT_KEY = STR.get('timeout')
    W = {'propagate': propagate, 'target_is_coroutine_function': is_coro_fn, 'has_dependency_graph': has_graph, 'n_middlewares': NMW}
    RP = {'driver': 'callback'}
    def ob(st, name, goal): oblige(st, name, goal, replay=RP)

    UNKNOWN = Bool('task_not_yet_prepared_by_this_receiver')          # tasks registered after the receiver was built are prepared lazily, on their first delivery
    def prepared(st): return Or(Not(UNKNOWN), G(st).get('prepared_now', BoolVal(False)))
    def ob_prepared(st, what):
        ob(st, f"run_task/{what}: the per-task tables (signature, type hints, dependency graph) are read only after the task has been prepared - also on the FIRST delivery of a task registered late  [C08/C12]", prepared(st))
    def h_prepare_task(ex, st, e, recv, args, kw, k, K): setG(st, prepared_now=BoolVal(True)); return k(st, None)
    def h_get_graph(ex, st, e, recv, args, kw, k, K):
        ob_prepared(st, 'dependency_graphs.get')
        g = fresh('graph'); st.pc.append(If(has_graph, Val.is_ref(g), g == Val.none)); return k(st, g)
    validate_params = Bool('validate_params')
    def h_parse_params(ex, st, e, recv, args, kw, k, K):
        oblige(st, "run_task/parse_params: with parameter validation disabled no signature is passed, so everything arrives as sent (parse_params contract)  [C08]",
               Implies(Not(validate_params), to_val(args[0]) == Val.none) if args else BoolVal(False), replay=RP)
        ob(st, "run_task/parse_params: applied to this message before invocation  [C08]", And(len(args) == 3 and to_val(args[2]) == Val.ref(msg_a), G(st)['invokes'] == 0))
        ok = st.fork(); k(ok, None)
        f = st.fork(); setG(f, parse_failed=BoolVal(True)); K['exc'](f, raise_any(f, 'Exception'))
    def h_Context(ex, st, e, recv, args, kw, k, K):
        if len(args) != 2: raise Unsupported("Context(...) call shape")
        a = alloc(st); st.heap.fld['message'] = Store(st.heap.field('message'), a, to_val(args[0])); st.heap.fld['ctx_broker'] = Store(st.heap.field('ctx_broker'), a, to_val(args[1]))
        return k(st, PyObj(a, 'Context'))
    class DictDisplay:
        def __init__(s, pairs): s.pairs = pairs
    def materialise(st, v):
        if isinstance(v, DictDisplay):
            a = alloc(st); h = st.heap
            for kk, vv in v.pairs:
                h.dval = Store(h.dval, a, Store(h.dval[a], kk, to_val(vv))); h.dhas = Store(h.dhas, a, Store(h.dhas[a], kk, True))
            return PyDict(a)
        return v
    def h_dict_update(ex, st, e, d, args, kw, k, K):
        o = args[0]; st.heap = st.heap.copy(); h = st.heap
        if isinstance(o, DictDisplay):
            for kk, vv in o.pairs:
                h.dval = Store(h.dval, d.addr, Store(h.dval[d.addr], kk, to_val(vv))); h.dhas = Store(h.dhas, d.addr, Store(h.dhas[d.addr], kk, True))
            return k(st, None)
        if not isinstance(o, PyDict): raise Unsupported("dict.update with " + repr(o))
        key = Const('key', Val); nh = fresh('dhas_u', h.dhas[d.addr].sort()); nv = fresh('dval_u', h.dval[d.addr].sort())
        st.facts.append(ForAll([key], And(nh[key] == Or(h.dhas[d.addr][key], h.dhas[o.addr][key]), nv[key] == If(h.dhas[o.addr][key], h.dval[o.addr][key], h.dval[d.addr][key]))))
        if is_true(simplify(d.addr == G(st)['kwargs_addr'])): setG(st, kwargs_updated_with=o.addr)
        h.dhas = Store(h.dhas, d.addr, nh); h.dval = Store(h.dval, d.addr, nv); return k(st, None)
    def h_dict_copy(ex, st, e, d, args, kw, k, K):
        src_d = d if d is not None else (args[0] if args else None)
        if src_d is None: return k(st, PyDict(alloc(st)))
        src_d = materialise(st, src_d)
        if not isinstance(src_d, PyDict): raise Unsupported("dict(...) of " + repr(src_d))
        a = alloc(st); h = st.heap; h.dhas = Store(h.dhas, a, h.dhas[src_d.addr]); h.dval = Store(h.dval, a, h.dval[src_d.addr]); return k(st, PyDict(a))
    def h_async_ctx(ex, st, e, recv, args, kw, k, K):
        cache = materialise(st, args[0]) if args else None
        if not isinstance(cache, PyDict): raise Unsupported("async_ctx initial cache is not a dict expression")
        h = st.heap
        ob(st, "run_task/pre@async_ctx: initial cache is owned by this execution (fresh, aliased by nothing reachable from the broker)  [C06]", cache.addr >= next0)
        cv = h.dval[cache.addr][CONTEXT_KEY]
        ob(st, "run_task/pre@async_ctx: cache maps Context to a Context built for this message and this broker  [C06]",
           And(h.dhas[cache.addr][CONTEXT_KEY], Val.is_ref(cv), h.field('message')[Val.a(cv)] == Val.ref(msg_a), h.field('ctx_broker')[Val.a(cv)] == Val.ref(broker_a), Val.a(cv) >= next0))
        setG(st, dep_ctx_created=BoolVal(True), cache_addr=cache.addr, cache_dval=h.dval[cache.addr], cache_dhas=h.dhas[cache.addr]); return k(st, PyObj(alloc(st), 'dep_ctx'))
    def h_resolve_kwargs(ex, st, e, recv, args, kw, k, K):
        def eff(st2, k2, K2):
            ok = st2.fork(); a = alloc(ok); k2(ok, PyDict(a))
            f = st2.fork(); setG(f, resolve_failed=BoolVal(True)); K2['exc'](f, raise_any(f, 'BaseException'))
        return k(st, Tok(eff))
    def h_iscoro(ex, st, e, recv, args, kw, k, K):
        ob(st, "run_task/dispatch: sync/async decided on the task function itself  [C01]", BoolVal(ast.unparse(e.args[0]) == 'target'))
        return k(st, PyBool(is_coro_fn))
    def invoke(st, args_v, kwargs_v, how):
        g = G(st)
        ob(st, "run_task/invoke: at most once  [C01]", g['invokes'] == 0)
        ob(st, "run_task/invoke: positional arguments are the message's args, in order  [C08]", to_val(args_v) == Val.ref(margs_a))
        kwa = Val.a(to_val(kwargs_v))
        ob(st, "run_task/invoke: keyword arguments are the resolved dependencies updated with the message's kwargs (message wins)  [C08]",
           And(kwa == g['kwargs_addr'], g['kwargs_updated_with'] == mkw_a))
        ob(st, "run_task/invoke: after dependency resolution, before teardown  [C12]", g['closes'] == 0)
        ob(st, "run_task/invoke: coroutine functions are called directly, others go through the executor  [C01]", is_coro_fn == BoolVal(how == 'direct'))
        setG(st, invokes=g['invokes'] + 1)
        def eff(st2, k2, K2, timed=False):
            setG(st2, exec_finished=BoolVal(True), awaited_invoke=G(st2)['awaited_invoke'] + 1)
            ok = st2.fork(); v = fresh('returned'); setG(ok, outcome_exc=Val.none, outcome_val=v); k2(ok, v)
            for base in (['BaseException'] + (['TimeoutError'] if timed else [])):
                f = st2.fork(); x = raise_any(f, base); setG(f, outcome_exc=x, outcome_val=Val.none); K2['exc'](f, x)
        return Tok(eff, 'invoke')
    def h_target(ex, st, e, recv, args, kw, k, K):
        if len(e.args) != 1 or not isinstance(e.args[0], ast.Starred) or '**' not in kw: raise Unsupported("target(...) call shape: " + ast.unparse(e))
        return k(st, invoke(st, args[0], kw['**'], 'direct'))
    def h_run_in_executor(ex, st, e, recv, args, kw, k, K):
        if len(args) != 5: raise Unsupported("run_in_executor call shape")
        ob(st, "run_task/executor: submits _run_sync(target, args, kwargs)  [C01/C08]", And(BoolVal(ast.unparse(e.args[1]) == '_run_sync'), BoolVal(ast.unparse(e.args[2]) == 'target')))
        return k(st, invoke(st, args[3], args[4], 'executor'))
    def h_wait_for(ex, st, e, recv, args, kw, k, K):
        inner = args[0]
        if not (isinstance(inner, Tok) and inner.kind == 'invoke'): raise Unsupported("asyncio.wait_for on something that is not the invocation")
        if set(kw) - {'timeout'} or len(args) > 2: raise Unsupported("asyncio.wait_for call shape: " + ast.unparse(e))
        lim = args[1] if len(args) > 1 else kw.get('timeout')
        ob(st, "run_task/timeout: the limit is the message's timeout label  [C07]", to_val(lim) == G(st)['timeout_label'] if lim is not None or 'timeout' in kw else BoolVal(False))
        setG(st, timeout_enforced=BoolVal(True))
        return k(st, Tok(lambda s, k2, K2: inner.eff(s, k2, K2, timed=True), 'invoke'))
    def h_float(ex, st, e, recv, args, kw, k, K):
        return k(st, args[0])      # precondition: the timeout label is float-convertible; float() keeps the value (identity on the symbolic label)
    def h_dict_get(ex, st, e, d, args, kw, k, K):
        kx = to_val(args[0])
        if is_true(simplify(d.addr == mlabels_a)) and is_true(simplify(kx == TIMEOUT_KEY)):
            t = fresh('timeout_label'); setG(st, timeout_label=t); return k(st, t)
        return k(st, If(st.heap.dhas[d.addr][kx], st.heap.dval[d.addr][kx], to_val(args[1]) if len(args) > 1 else Val.none))
    def h_opaque_get(name):
        def h(ex, st, e, recv, args, kw, k, K): ob_prepared(st, {'sig': 'task_signatures.get', 'hints': 'task_hints.get'}.get(name, name)); return k(st, fresh(name))
        return h
    def h_close(ex, st, e, recv, args, kw, k, K):
        tup = args[0]
        if not (isinstance(tup, PyTuple) and len(tup.items) == 3): raise Unsupported("dep_ctx.close(*args) with a non-3-tuple")
        def eff(st2, k2, K2):
            g = G(st2)
            ob(st2, "run_task/close: at most once  [C12]", g['closes'] == 0)
            ob(st2, "run_task/close: after the task function (or the failing dependency) finished  [C12]", Or(g['exec_finished'], g['resolve_failed'], g['invokes'] == 0))
            ob(st2, "run_task/close: before the result is built (hence before it is stored or acknowledged after execution)  [C12]", Not(g['result_built']))
            exc = g['found_exc']; want = And(exc != Val.none, propagate)
            ob(st2, "run_task/close: the task's exception is thrown into the dependencies iff one was found and propagation is enabled  [C12]", to_val(tup.items[1]) == If(want, exc, Val.none))
            ob(st2, "run_task/close: the dependency cache was not written after it was handed over  [C06]", And(st2.heap.dval[g['cache_addr']] == g['cache_dval'], st2.heap.dhas[g['cache_addr']] == g['cache_dhas']))
            setG(st2, closes=g['closes'] + 1)
            ok = st2.fork(); k2(ok, None)
            f = st2.fork(); setG(f, close_failed=BoolVal(True)); K2['exc'](f, raise_any(f, 'Exception'))
        return k(st, Tok(eff))
    def h_TaskiqResult(ex, st, e, recv, args, kw, k, K):
        for f in ('is_err', 'return_value', 'error', 'labels'):
            if f not in kw: raise Unsupported("TaskiqResult(...) without " + f)
        a = alloc(st); h = st.heap
        for f in ('is_err', 'return_value', 'error', 'labels'): h.fld['res_' + f] = Store(h.field('res_' + f), a, to_val(kw[f]))
        setG(st, result_built=BoolVal(True), result_addr=a); return k(st, PyObj(a, 'result'))
    def h_on_error(ex, st, e, recv, args, kw, k, K):
        i = G(st).get('__i')
        if i is None or len(args) != 3: raise Unsupported("middleware.on_error call shape / outside its loop")
        def eff(st2, k2, K2):
            g = G(st2)
            ob(st2, "run_task/on_error: only when the task raised  [C10]", g['found_exc'] != Val.none)
            ob(st2, "run_task/on_error: receives the message, the built result and the raised exception  [C10]",
               And(to_val(args[0]) == Val.ref(msg_a), to_val(args[2]) == g['found_exc'], g['result_built'], to_val(args[1]) == Val.ref(g['result_addr'])))
            ob(st2, "run_task/on_error: hook is overridden  [C10]", over(i))
            ob(st2, "run_task/on_error: after teardown  [C12]", Implies(g['dep_ctx_created'], g['closes'] == 1))
            ob(st2, "run_task/on_error: each hook at most once  [C10]", Not(g['fired'][i]))
            setG(st2, fired=Store(g['fired'], i, True))
            ok = st2.fork(); k2(ok, None)
            f = st2.fork(); setG(f, hook_failed=BoolVal(True)); K2['exc'](f, raise_any(f, 'Exception'))
        return sync_or_async(ex, st, hook_async(i), eff, k, K)
    def h_for(ex, s, st, k, K):
        if ast.unparse(s.iter) != 'self.broker.middlewares': raise Unsupported("loop over " + ast.unparse(s.iter))
        def inv(sx, ix): return ForAll([j], G(sx)['fired'][j] == And(0 <= j, j < ix, over(j)))
        ob(st, "run_task/on_error-loop/inv-entry  [C10]", inv(st, IntVal(0)))
        it = st.fork(); i = fresh('i', IntSort()); setG(it, fired=fresh('fired', I2B)); it.pc += [i >= 0, i < NMW]; it.facts.append(inv(it, i))
        if not isinstance(s.target, ast.Name): raise Unsupported('middleware loop target')
        setG(it, __i=i); it.env = dict(it.env); it.env[s.target.id] = PyObj(fresh('mw', IntSort()), 'mw')
        def back(s3): ob(s3, "run_task/on_error-loop/inv-preserved: overridden hooks fire in registration order, each once  [C10]", inv(s3, i + 1))
        K2 = dict(K); K2['cont'] = back; K2['brk'] = lambda s3: ob(s3, "run_task/on_error-loop: no early exit  [C10]", BoolVal(False))
        ex.block(s.body, it, back, K2)
        out = st.fork(); setG(out, fired=fresh('fired', I2B), __i=None); out.facts.append(inv(out, NMW)); return k(out)

    class Ex(Exec):
        def ev_Attribute(self, e, st, k, K):
            p = ast.unparse(e)
            if p == 'self.broker.custom_dependency_context': return k(st, PyDict(shared_ctx_a))
            if p == 'self.broker': return k(st, PyObj(broker_a, 'broker'))
            if p == 'message.args': return k(st, PyList(margs_a))
            if p == 'message.kwargs': return k(st, PyDict(mkw_a))
            if p == 'message.labels': return k(st, PyDict(mlabels_a))
            if p == 'self.propagate_exceptions': return k(st, PyBool(propagate))
            if p == 'self.validate_params': return k(st, PyBool(validate_params))
            if p in ('self.known_tasks', 'message.task_name', 'message.task_id', 'self.broker.state', 'self.broker.dependency_overrides', 'self.executor',
                     FOUND + '.__traceback__', 'self.broker.middlewares', 'self.task_signatures', 'self.task_hints', 'self.dependency_graphs'): return k(st, fresh(p.replace('.', '_')))
            if p.startswith('self.sem') or 'queue' in p:
                ob(st, "run_task/frame: no access to the receiver's semaphores or hand-over queue  [C03]", BoolVal(False)); return k(st, fresh('forbidden'))
            return super().ev_Attribute(e, st, k, K)
        def ev_Compare(self, e, st, k, K):
            u = ast.unparse(e)
            m_ = re.match(r"^(\w+)\.__class__\.on_error (!=|==) TaskiqMiddleware\.on_error$", u)
            if m_ and G(st).get('__i') is not None: return k(st, PyBool(over(G(st)['__i']) if m_.group(2) == '!=' else Not(over(G(st)['__i']))))
            if u == 'message.task_name not in self.known_tasks': return k(st, PyBool(And(UNKNOWN, Not(G(st).get('prepared_now', BoolVal(False))))))
            if u == 'message.task_name in self.known_tasks': return k(st, PyBool(Not(And(UNKNOWN, Not(G(st).get('prepared_now', BoolVal(False)))))))
            if len(e.ops) == 1 and isinstance(e.ops[0], (ast.In, ast.NotIn)) and ast.unparse(e.comparators[0]).startswith('self.'):
                approx(st, "membership test " + u + " in receiver-held bookkeeping this unit has no contract for (unconstrained boolean)")
                return k(st, PyBool(fresh('membership_in_' + ast.unparse(e.comparators[0]).replace('.', '_'), BoolSort())))      # membership in receiver-held bookkeeping: unconstrained
            return super().ev_Compare(e, st, k, K)
        def ev_Dict(self, e, st, k, K):
            if not e.keys:
                a = alloc(st); hh = st.heap; key = Const('key', Val)
                st.pc.append(hh.dhas[a] == K_(Val, False))
                return k(st, PyDict(a))
            if any(x is None for x in e.keys): raise Unsupported('dict display with ** unpacking: ' + ast.unparse(e))
            names = [ast.unparse(x) for x in e.keys]
            if any(not re.match(r"^[A-Z]\w*$", n) for n in names): raise Unsupported("dict display with keys " + ", ".join(names))
            keys = [{'Context': CONTEXT_KEY, 'TaskiqState': STATE_KEY}.get(n, STR.get('<dependency key ' + n + '>')) for n in names]          # further class-keyed entries (e.g. TaskiqMessage) are allowed: other keys of the same private dict
            return self.ev_list(e.values, st, lambda s, vs: k(s, DictDisplay(list(zip(keys, vs)))), K)
        def find_handler(self, name, recv=None):
            if name == 'target': return h_target
            return super().find_handler(name, recv)
        def assign(self, tgt, v, st, k, K):
            if isinstance(tgt, ast.Name) and tgt.id == FOUND: setG(st, found_exc=to_val(v))
            if isinstance(tgt, ast.Name) and tgt.id == KWARGS and isinstance(v, PyDict): setG(st, kwargs_addr=v.addr, kwargs_updated_with=IntVal(-1))
            return super().assign(tgt, v, st, k, K)
    def K_(sort, val): return K(sort, val)
    import z3 as _z3
    K = _z3.K
    handlers = {'logger.*': noop, 'asyncio.get_running_loop': opaque('loop'), 'self._prepare_task': h_prepare_task, 'self.task_signatures.get': h_opaque_get('sig'), 'self.task_hints.get': h_opaque_get('hints'),
                'self.dependency_graphs.get': h_get_graph, 'parse_params': h_parse_params, 'Context': h_Context, 'dict.update': h_dict_update, 'dict.copy': h_dict_copy, 'dict': h_dict_copy,
                GRAPH + '.async_ctx': h_async_ctx, 'time': opaque('time'), DEPCTX + '.resolve_kwargs': h_resolve_kwargs, 'asyncio.iscoroutinefunction': h_iscoro,
                'loop.run_in_executor': h_run_in_executor, 'dict.get': h_dict_get, 'float': h_float, 'asyncio.wait_for': h_wait_for, 'type': opaque('type'), DEPCTX + '.close': h_close,
                'TaskiqResult': h_TaskiqResult, 'round': opaque('round'), 'maybe_awaitable': h_maybe_awaitable, '*.on_error': h_on_error, '@for': h_for}
    ex = Ex(handlers); ex.merge = True; ex.inline_scope = (src, REL, 'Receiver')
    st = State(); h = st.heap
    st.env = {'self': PyObj(self_a, 'receiver'), 'target': fresh('target'), 'message': PyObj(msg_a, 'message')}
    st.pc += [Distinct(self_a, msg_a, shared_ctx_a, margs_a, mkw_a, mlabels_a, broker_a), h.next == next0, NMW >= 0] + [And(x < next0, x >= 0) for x in (self_a, msg_a, shared_ctx_a, margs_a, mkw_a, mlabels_a, broker_a)]
    st.ghost = dict(__i=None, prepared_now=BoolVal(False), invokes=IntVal(0), awaited_invoke=IntVal(0), closes=IntVal(0), exec_finished=BoolVal(False), resolve_failed=BoolVal(False), result_built=BoolVal(False), found_exc=Val.none,
                    dep_ctx_created=BoolVal(False), timeout_enforced=BoolVal(False), hook_failed=BoolVal(False), close_failed=BoolVal(False), parse_failed=BoolVal(False),
                    fired=K(IntSort(), False), outcome_exc=Val.none, outcome_val=Val.none, timeout_label=Val.none, kwargs_addr=IntVal(-2), kwargs_updated_with=IntVal(-1),
                    cache_addr=IntVal(-1), cache_dval=h.dval[-1], cache_dhas=h.dhas[-1], result_addr=IntVal(-1), __witness=W)
    exits = collections.Counter()
    def on_ret(s, v):
        exits['return'] += 1; g = G(s); hh = s.heap
        if not isinstance(v, PyObj):
            ob(s, "run_task/post: returns the TaskiqResult it built  [C07]", BoolVal(False)); return
        r = v.addr
        ob(s, "run_task/post: returns the TaskiqResult it built  [C07]", r == g['result_addr'])
        ob(s, "run_task/post: invoked exactly once and awaited, unless dependency resolution failed  [C01]", Or(And(g['invokes'] == 1, g['awaited_invoke'] == 1), And(g['invokes'] == 0, g['resolve_failed'])))
        ob(s, "run_task/post: is_err iff the execution raised  [C07]", hh.field('res_is_err')[r] == Val.boolv(Or(g['outcome_exc'] != Val.none, g['resolve_failed'])))
        ob(s, "run_task/post: error is the raised exception (any BaseException, a TimeoutError when timed out)  [C07]", Implies(g['exec_finished'], hh.field('res_error')[r] == g['outcome_exc']))
        ob(s, "run_task/post: return_value is the returned value  [C07]", Implies(And(g['exec_finished'], g['outcome_exc'] == Val.none), hh.field('res_return_value')[r] == g['outcome_val']))
        ob(s, "run_task/post: the result carries the message's labels  [C07/C09]", hh.field('res_labels')[r] == Val.ref(mlabels_a))
        ob(s, "run_task/post: a timeout label is enforced through wait_for  [C07]", Implies(And(g['invokes'] == 1, g['timeout_label'] != Val.none), g['timeout_enforced']))
        ob(s, "run_task/post: no time limit without a timeout label  [C07]", Implies(g['timeout_label'] == Val.none, Not(g['timeout_enforced'])))
        ob(s, "run_task/post: teardown exactly once iff a dependency context was created  [C12]", g['closes'] == If(g['dep_ctx_created'], 1, 0))
        ob(s, "run_task/post: a dependency context is created iff the task has a dependency graph  [C12/C06]", g['dep_ctx_created'] == has_graph)
        ob(s, "run_task/post: on_error fired exactly for the overridden hooks iff the execution raised  [C10]",
           Implies(Not(g['hook_failed']), ForAll([j], g['fired'][j] == And(0 <= j, j < NMW, over(j), g['found_exc'] != Val.none))))
        if exits['return'] <= 40: reach(s, f"run_task/reach@return#{exits['return']}")
    def on_exc(s, x):
        exits['raise'] += 1; g = G(s)
        ob(s, "run_task/raises: only from parse_params, dependency teardown or an on_error hook - never the task function's own exception  [C07/C03]",
           And(Or(g['parse_failed'], g['close_failed'], g['hook_failed']), Or(g['outcome_exc'] == Val.none, x != g['outcome_exc'])))
        ob(s, "run_task/raises: teardown was still attempted once if a dependency context existed  [C12]", Implies(And(g['dep_ctx_created'], Not(g['parse_failed'])), g['closes'] == 1))
    ex.run(fdef, st, on_ret, on_exc)
    src.note_paths('::Receiver.run_task', sum(exits.values()))
    return {'exits': dict(exits)}
