"""Unit `formatters`: ProxyFormatter.dumps/loads, JSONFormatter.dumps/loads, JSONSerializer.dumpb/loadb, PickleSerializer.dumpb/loadb
 — C08 ("encoding a message and decoding it again with any bundled formatter/serializer yields an equal message").

The real bodies are executed symbolically with the library calls as uninterpreted functions; the round trip
   loads(dumps(m).message) == m
is then a rewriting lemma over the trusted library axioms (json/pickle/pydantic round trips on JSON-representable content).
What the contracts pin down is the *wiring*: the message (not e.g. its labels) is dumped, the same codec pair is used in both
directions, encode/decode are paired, BrokerMessage carries the message's id, name and labels."""
import ast
from z3 import *
from pyvc.core import *

PROPS = ['C08']
REPLAY = {'driver': 'formatters'}
TRUSTED = [
    "pydantic: model_validate(TaskiqMessage, model_dump(m)) == m and model_validate_json(TaskiqMessage, model_dump_json(m)[.encode()]) == m for JSON-representable content",
    "json: loads(dumps(x, default=d).encode().decode()) == x for JSON-representable x; json.loads and model_validate_json accept str or UTF-8 bytes alike",
    "pickle: loads(dumps(x)) == x for picklable x",
    "BrokerMessage(...) keeps the fields it is given",
]


def generate(src):
    F = {('proxy', n): src.func('taskiq/formatters/proxy_formatter.py', 'ProxyFormatter.' + n) for n in ('dumps', 'loads')}
    F.update({('json', n): src.func('taskiq/formatters/json_formatter.py', 'JSONFormatter.' + n) for n in ('dumps', 'loads')})
    S = {('json', n): src.func('taskiq/serializers/json_serializer.py', 'JSONSerializer.' + n) for n in ('dumpb', 'loadb')}
    S.update({('pickle', n): src.func('taskiq/serializers/pickle.py', 'PickleSerializer.' + n) for n in ('dumpb', 'loadb')})
    U = lambda n, k=1: Function(n, *([Val] * (k + 1)))
    model_dump, model_validate, mdj, mvj = U('model_dump'), U('model_validate', 2), U('model_dump_json'), U('model_validate_json', 2)
    jd, jl, pd, pl, enc, dec = U('json_dumps', 2), U('json_loads'), U('pickle_dumps'), U('pickle_loads'), U('str_encode'), U('bytes_decode')
    x_, d_ = Consts('x_ d_', Val); TM = STR.get('<class TaskiqMessage>')
    AX = [ForAll([x_], model_validate(TM, model_dump(x_)) == x_), ForAll([x_], mvj(TM, enc(mdj(x_))) == x_), ForAll([x_, d_], jl(dec(enc(jd(x_, d_)))) == x_), ForAll([x_, d_], jl(enc(jd(x_, d_))) == x_), ForAll([x_, d_], jl(jd(x_, d_)) == x_),
          ForAll([x_], pl(pd(x_)) == x_), ForAll([x_], mvj(TM, mdj(x_)) == x_)]
    RP = {'driver': 'formatters'}
    def lib(fn, n):
        def h(ex, st, e, recv, args, kw, k, K):
            a = [to_val(x) for x in args] + [to_val(kw[kx]) for kx in kw]
            if len(a) != n: raise Unsupported(f"call shape of {ast.unparse(e.func)}")
            return k(st, fn(*a))
        return h
    def h_encode(ex, st, e, recv, args, kw, k, K): return k(st, enc(to_val(recv)))
    def h_decode(ex, st, e, recv, args, kw, k, K): return k(st, dec(to_val(recv)))
    def h_BrokerMessage(ex, st, e, recv, args, kw, k, K):
        for f in ('task_id', 'task_name', 'message', 'labels'):
            if f not in kw: raise Unsupported("BrokerMessage(...) without " + f)
        a = alloc(st)
        for f in ('task_id', 'task_name', 'message', 'labels'): st.heap.fld['bm_' + f] = Store(st.heap.field('bm_' + f), a, to_val(kw[f]))
        return k(st, PyObj(a, 'BrokerMessage'))
    class Ex(Exec):
        def ev_Name(self, e, st, k, K):
            if e.id == 'TaskiqMessage' and e.id not in st.env: return k(st, TM)
            return super().ev_Name(e, st, k, K)
        def find_handler(self, name, recv=None):
            if name.endswith('.encode'): return h_encode
            if name.endswith('.decode'): return h_decode
            return super().find_handler(name, recv)
    base = {'model_dump': lib(model_dump, 1), 'model_validate': lib(model_validate, 2), 'model_dump_json': lib(mdj, 1), 'model_validate_json': lib(mvj, 2), 'dumps': lib(jd, 2), 'loads': lib(jl, 1),
            'pickle.dumps': lib(pd, 1), 'pickle.loads': lib(pl, 1), 'BrokerMessage': h_BrokerMessage}
    def run1(fdef, env, handlers, heap_init=None):
        out = []
        ex = Ex({**base, **handlers}); st = State(); st.env = dict(env); st.facts = list(AX)
        if heap_init: heap_init(st)
        ex.run(fdef, st, lambda s, v: out.append((s, v)), lambda s, x: out.append((s, None)))
        if len(out) != 1: raise Unsupported(f"{fdef.name}: expected a single straight-line path, got {len(out)}")
        return out[0]
    # serializers: dumpb / loadb as symbolic functions of their argument, obtained from the real bodies
    ser = {}
    for name in ('json', 'pickle'):
        v = fresh('value'); self_a = Int('ser_self')
        s1, r1 = run1(S[(name, 'dumpb')], {'self': PyObj(self_a), 'value': v}, {})
        s2, r2 = run1(S[(name, 'loadb')], {'self': PyObj(self_a), 'value': to_val(r1)}, {})
        oblige(s2, f"serializers/{name}: loadb(dumpb(x)) == x  [C08]", to_val(r2) == v, replay=RP); reach(s2, f"serializers/{name}/reach")
        ser[name] = (v, to_val(r1))
    # formatters
    m = fresh('message'); m_a = Int('msg_a')
    for sname in ('json', 'pickle'):
        xv, dumped = ser[sname]
        def h_dumpb(ex, st, e, recv, args, kw, k, K, xv=xv, dumped=dumped): return k(st, substitute(dumped, (xv, to_val(args[0]))))
        def h_loadb(ex, st, e, recv, args, kw, k, K, sname=sname):
            s1, r1 = run1(S[(sname, 'loadb')], {'self': PyObj(Int('ser_self')), 'value': to_val(args[0])}, {}); return k(st, to_val(r1))
        s1, bm = run1(F[('proxy', 'dumps')], {'self': PyObj(Int('fmt_self')), 'message': PyObj(m_a, 'TaskiqMessage')}, {'self.broker.serializer.dumpb': h_dumpb})
        if not isinstance(bm, PyObj): raise Unsupported("ProxyFormatter.dumps does not return a BrokerMessage")
        wire = s1.heap.field('bm_message')[bm.addr]
        for f in ('task_id', 'task_name', 'labels'):
            oblige(s1, f"ProxyFormatter.dumps: the broker message carries the message's {f}  [C08/C09]", s1.heap.field('bm_' + f)[bm.addr] == s1.heap.field(f)[m_a], replay=RP)
        s2, back = run1(F[('proxy', 'loads')], {'self': PyObj(Int('fmt_self')), 'message': wire}, {'self.broker.serializer.loadb': h_loadb})
        s2.facts += s1.facts
        oblige(s2, f"ProxyFormatter+{sname}: loads(dumps(m).message) == m  [C08]", to_val(back) == Val.ref(m_a), replay=RP); reach(s2, f"ProxyFormatter+{sname}/reach")
    s1, bm = run1(F[('json', 'dumps')], {'self': PyObj(Int('fmt_self')), 'message': PyObj(m_a, 'TaskiqMessage')}, {})
    if not isinstance(bm, PyObj): raise Unsupported("JSONFormatter.dumps does not return a BrokerMessage")
    for f in ('task_id', 'task_name', 'labels'):
        oblige(s1, f"JSONFormatter.dumps: the broker message carries the message's {f}  [C08/C09]", s1.heap.field('bm_' + f)[bm.addr] == s1.heap.field(f)[m_a], replay=RP)
    s2, back = run1(F[('json', 'loads')], {'self': PyObj(Int('fmt_self')), 'message': s1.heap.field('bm_message')[bm.addr]}, {})
    oblige(s2, "JSONFormatter: loads(dumps(m).message) == m  [C08]", to_val(back) == Val.ref(m_a), replay=RP); reach(s2, "JSONFormatter/reach")
    return {}
