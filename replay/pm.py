"""Native replay for unit `pm` (C17, C18): the REAL ProcessManager.start / handle() code driven by fake multiprocessing.Process / Queue / Event,
os.kill, sleep and signal registration, over exhaustive short event histories (per supervision tick: any subset of workers dies, SIGHUP,
SIGINT/SIGTERM - also delivered in the middle of the end-of-tick scan), worker counts 1..2(3), max_fails in {-1, 1, 2}.
The fakes follow the trusted model of DESIGN section 3 (start() reaps finished children, is_alive() reaps, join() waits and reaps,
os.kill on a reaped / foreign pid fails).  Run with /venv/bin/python.  Prints one JSON line."""
import sys, json, itertools, logging, signal as _signal
logging.disable(logging.CRITICAL)

class StopHistory(BaseException): pass

class World:
    def __init__(self, pid_space=None):
        self.pid_space = pid_space          # None: fresh pids for ever; k: the kernel hands out pids from a space of k numbers and RECYCLES a pid once its process was reaped
        self.procs = []; self.next_pid = 1000; self.signals = []; self.handlers = {}; self.tick = 0; self.log = []; self.problems = []
        self.gets = []; self.shutdown_seen = False; self.starts_after_shutdown = 0; self.int_at_scan = False

def install(world, pm_mod):
    class FakeProcess:
        def __init__(self, target=None, kwargs=None, name=None, daemon=None):
            self.name = name; self.pid = None; self.alive = False; self.reaped = False; self.started = False; self.joined = False; self.daemon = daemon; self.start_tick = None
            try: self.slot = int(str(name).split('-')[-1])
            except Exception: self.slot = None
        def start(self):
            if world.shutdown_seen: world.starts_after_shutdown += 1
            for p in world.procs:                      # multiprocessing.BaseProcess.start() -> _cleanup(): reaps finished children
                if p.started and not p.alive: p.reaped = True
            if world.pid_space:
                busy = {p.pid for p in world.procs if p.alive or not p.reaped}
                for _ in range(world.pid_space):
                    cand = 1000 + (world.next_pid - 1000) % world.pid_space; world.next_pid += 1
                    if cand not in busy: break
                self.pid = cand
            else: self.pid = world.next_pid; world.next_pid += 1
            self.alive = True; self.started = True; self.start_tick = world.tick; world.procs.append(self)
            world.log.append(('start', self.name, self.pid, world.tick))
        def is_alive(self):
            if self.started and not self.alive: self.reaped = True
            r = self.alive
            if not r and world.int_at_scan:          # a signal delivered between is_alive() and the put of the reload action
                world.int_at_scan = False; world.handlers[_signal.SIGINT](_signal.SIGINT, None)
            return r
        def terminate(self):
            # SIGTERM starts a graceful shutdown: the worker finishes its running tasks first, so it is still alive until someone WAITS for it
            # (join() without a timeout), or until the next tick at the latest
            self.code = -15 if getattr(self, 'code', None) is None else self.code
            if self.alive: self.terminating_since = world.tick
        def kill(self): self.alive = False; self.code = -9 if getattr(self, 'code', None) is None else self.code
        def close(self): pass
        @property
        def exitcode(self): return None if (self.alive or not self.started) else (getattr(self, 'code', None) if getattr(self, 'code', None) is not None else 1)          # the rest of multiprocessing.Process's read-only surface
        @property
        def ident(self): return self.pid
        @property
        def sentinel(self): return -1
        def join(self, timeout=None):
            if timeout is None: self.alive = False; self.reaped = True; self.joined = True
            # with a timeout join() just returns once it has elapsed: a worker still finishing its tasks stays alive
    class FakeQueue:
        def __init__(self, maxsize=0, *a, **kw): self.items = []; self.maxsize = kw.get('maxsize', maxsize)
        def put(self, x):
            # every put in these histories comes from the manager's own thread (its loop, or a signal handler running in it) and the manager is the only consumer:
            # a put on a full bounded queue would block for ever
            if self.maxsize is not None and self.maxsize > 0 and len(self.items) >= self.maxsize:
                world.problems.append(f"C17: the action queue holds {len(self.items)} pending actions and has capacity {self.maxsize}: this put blocks the manager loop in its own thread for ever (no restart, no shutdown any more)")
                world.problems.append(f"C18: the action queue holds {len(self.items)} pending actions and has capacity {self.maxsize}: this put blocks the manager loop in its own thread for ever (later SIGINT/SIGTERM never handled)")
                raise KeyboardInterrupt("dead-lock on the bounded action queue")
            self.items.append(x)
        def empty(self): return not self.items
        def get(self):
            x = self.items.pop(0); world.gets.append((type(x).__name__, getattr(x, 'worker_num', None), getattr(x, 'is_reload_all', None), world.tick))
            if type(x).__name__ == 'ShutdownAction': world.shutdown_seen = True
            return x
    class FakeEvent:
        def wait(self, t=None): return True
    def fake_kill(pid, sig):
        p = next((p for p in reversed(world.procs) if p.pid == pid), None)          # the latest process that got this pid (pids may be recycled)
        world.signals.append((pid, sig, None if p is None else p.name, None if p is None else (p.alive, p.reaped)))
        if p is None or p.reaped: raise ProcessLookupError(3, 'No such process')
    def fake_signal(signum, handler): world.handlers[signum] = handler
    class FakeCP:
        name = 'MainProcess'
    pm_mod.Process = FakeProcess; pm_mod.Queue = FakeQueue; pm_mod.Event = FakeEvent
    pm_mod.os = type('os', (), {'kill': staticmethod(fake_kill), 'getpid': staticmethod(lambda: 1)})
    pm_mod.signal = type('signal', (), {'signal': staticmethod(fake_signal), 'SIGINT': _signal.SIGINT, 'SIGTERM': _signal.SIGTERM, 'SIGHUP': _signal.SIGHUP})
    pm_mod.current_process = lambda: FakeCP

def run_history(nworkers, max_fails, history, via_run_worker=False, pid_space=None):
    import taskiq.cli.worker.process_manager as pm_mod
    from taskiq.cli.worker.args import WorkerArgs
    world = World(pid_space); install(world, pm_mod)
    deaths = {}            # tick at which a process died -> checked for replacement two ticks later
    deaths_total = []
    def check_state(final=False):
        m = mgr
        if len(m.workers) != nworkers: world.problems.append(f"C17: the number of worker slots changed to {len(m.workers)} (configured {nworkers})")
        for slot in range(nworkers):
            live = [p for p in world.procs if p.slot == slot and p.alive]
            if len(live) > 1: world.problems.append(f"C17: two live processes for slot {slot} at tick {world.tick}: pids {[p.pid for p in live]}")
        for p, t in list(deaths.items()):
            if world.tick >= t + 2 and not world.shutdown_seen and p in m.workers:
                world.problems.append(f"C17: worker {p.name} (pid {p.pid}) died in tick {t} and is still not replaced at the start of tick {world.tick}")
                del deaths[p]
    def fake_sleep(_):
        check_state()
        for p_ in world.procs:          # workers that were asked to terminate have finished their tasks by the next tick
            if getattr(p_, 'terminating_since', None) is not None and p_.alive: p_.alive = False
        if world.tick >= len(history): raise StopHistory()
        dies, sig = history[world.tick]; world.tick += 1
        for slot in dies:
            if slot < len(mgr.workers) and mgr.workers[slot].alive: mgr.workers[slot].alive = False; deaths[mgr.workers[slot]] = world.tick - 1; deaths_total.append(slot)
        if sig == 'HUP': world.handlers[_signal.SIGHUP](_signal.SIGHUP, None)
        elif sig == 'HUPx300':
            for _ in range(300): world.handlers[_signal.SIGHUP](_signal.SIGHUP, None)          # a burst of reload requests inside one tick (a checkout touching a few hundred watched files)
        elif sig == 'INT': world.handlers[_signal.SIGINT](_signal.SIGINT, None)
        elif sig == 'TERM': world.handlers[_signal.SIGTERM](_signal.SIGTERM, None)
        elif sig == 'INT@scan': world.int_at_scan = True
    pm_mod.sleep = fake_sleep
    args = WorkerArgs(broker='x:y', modules=[], workers=nworkers, max_fails=max_fails, configure_logging=False, wait_tasks_timeout=0.5)          # a worker may need longer than that to finish (the fake keeps it alive until it is waited for)
    status = 'running'; raised = None; mgr = None
    if via_run_worker:          # through the CLI entry point taskiq.cli.worker.run.run_worker: it builds the manager, starts it and returns its status
        import taskiq.cli.worker.run as run_mod
        real_pm = pm_mod.ProcessManager
        def make(*a, **kw):
            nonlocal mgr
            mgr = real_pm(*a, **kw); return mgr
        saved_pm, saved_obs = run_mod.ProcessManager, run_mod.Observer; run_mod.ProcessManager = make; run_mod.Observer = None
    else: mgr = pm_mod.ProcessManager(args, lambda args: None)
    try:
        if via_run_worker:
            try: status = run_mod.run_worker(args)
            finally: run_mod.ProcessManager, run_mod.Observer = saved_pm, saved_obs
        else: status = mgr.start()
    except StopHistory: status = 'running'
    except BaseException as e: raised = f"{type(e).__name__}: {e}"
    pr = world.problems
    if raised: pr.append(f"C18: the manager died with {raised}")
    if any(g[0] == 'ShutdownAction' for g in world.gets) and not raised:          # the manager process exits now: multiprocessing's exit handler terminates every live DAEMONIC child
        for p_ in world.procs:
            if p_.alive and p_.daemon: world.signals.append((p_.pid, _signal.SIGTERM, p_.name, (p_.alive, p_.reaped)))
    # ---- C18: the failure status needs at least max_fails real worker deaths (restarts requested by reload-all never consume the budget)
    if status == -1 and max_fails >= 1 and len(deaths_total) < max_fails: pr.append(f"C18: failure status after only {len(deaths_total)} worker death(s) with max_fails={max_fails} (reload-all restarts were charged to the failure budget)")
    # ---- C18: budget
    fails = [g for g in world.gets if g[0] == 'ReloadOneAction' and g[2] is False]
    if max_fails >= 1:
        if status == -1 and len(fails) != max_fails: pr.append(f"C18: failure status after {len(fails)} handled unexpected exits (max_fails={max_fails})")
        if status != -1 and len(fails) >= max_fails and not raised: pr.append(f"C18: {len(fails)} unexpected exits handled but no failure status (max_fails={max_fails}, status={status})")
    elif status == -1:
        pr.append(f"C18: failure status with max_fails={max_fails}")
        pr.append(f"C17: the manager gave up (returned the failure status) with max_fails={max_fails} - no failure budget exists, nothing asked it to shut down, yet the dead worker is never replaced")
    # ---- C18: reload-all restarts every worker exactly once in the tick in which it is handled, without consuming the budget
    for g in world.gets:
        if g[0] == 'ReloadAllAction':
            t = g[3]
            later_exit = any(x[0] == 'ShutdownAction' and x[3] == t for x in world.gets) or status == -1
            if not later_exit and t < len(history):
                for slot in range(nworkers):
                    n = len([e for e in world.log if e[0] == 'start' and e[1] == f'worker-{slot}' and e[3] == t])
                    if n != 1 and world.tick > t: pr.append(f"C18: reload-all handled in tick {t}: worker-{slot} was started {n} times in that tick")
    # ---- C18: shutdown
    if any(g[0] == 'ShutdownAction' for g in world.gets) and status != -1:
        if status is not None and not raised: pr.append(f"C18: shutdown returned status {status!r}")
        if world.starts_after_shutdown: pr.append(f"C18: {world.starts_after_shutdown} processes started after the shutdown action was taken")
        for pid, sig, name, st in world.signals:
            if name is None: pr.append(f"C18: signalled pid {pid}, which is not one of the manager's workers")
            elif st[1]: pr.append(f"C18: signalled {name} (pid {pid}) after it had been reaped - os.kill raises ProcessLookupError / may hit an unrelated process")
        from collections import Counter
        c = Counter(pid for pid, *_ in world.signals)
        if any(v > 1 for v in c.values()): pr.append(f"C18: a worker was signalled more than once: {dict(c)}")
        if not raised:
            for p in mgr.workers:
                if p.alive and c.get(p.pid, 0) != 1: pr.append(f"C18: live worker {p.name} was not signalled on shutdown")
    elif world.signals: pr.append(f"C18: signals sent without a shutdown request: {world.signals}")
    return sorted(set(pr))

def run(sc):
    fails = []; n = 0
    for nworkers in (1, 2):
        subsets = [()] + [(i,) for i in range(nworkers)] + ([tuple(range(nworkers))] if nworkers > 1 else [])
        events = [(d, s) for d in subsets for s in (None, 'HUP', 'INT', 'INT@scan')] + [((), 'TERM')]
        for max_fails in (-1, 1, 2):
            for hist in itertools.product(events, repeat=3):
                pr = run_history(nworkers, max_fails, list(hist) + [((), None), ((), None)]); n += 1
                if pr and len(fails) < 200: fails.append({'key': f"workers={nworkers} max_fails={max_fails} history={hist}", 'config': {'workers': nworkers, 'max_fails': max_fails, 'ticks': [list(map(str, h)) for h in hist]}, 'failed_clauses': pr[:5]})
    for nworkers in (1, 2, 3):          # a burst: hundreds of reload requests inside one tick, then a quiet tick, then SIGINT
        hist = [((), 'HUPx300'), ((), None), ((), 'INT')]
        pr = run_history(nworkers, -1, list(hist) + [((), None), ((), None)]); n += 1
        if pr: fails.append({'key': f"workers={nworkers} burst", 'config': {'workers': nworkers, 'max_fails': -1, 'ticks': [list(map(str, h)) for h in hist]}, 'failed_clauses': pr[:5]})
    for nworkers, space in ((1, 2), (2, 3), (2, 4)):          # a long life in a small pid space: a replacement gets the pid of a worker that died (and was reaped) earlier
        for who in [(0,)] + ([(1,), (0, 1)] if nworkers > 1 else []):
            hist = []
            for _ in range(5): hist += [(who, None), ((), None)]
            pr = run_history(nworkers, -1, hist + [((), 'INT'), ((), None), ((), None)], pid_space=space); n += 1
            if pr: fails.append({'key': f"workers={nworkers} pid-space={space} deaths-of={who} x5", 'config': {'workers': nworkers, 'max_fails': -1, 'pid_space': space, 'ticks': [list(map(str, h)) for h in hist]}, 'failed_clauses': pr[:5]})
    for nworkers in (1, 2):          # the same through run_worker (shorter histories)
        subsets = [()] + [(i,) for i in range(nworkers)]
        events = [(d, s) for d in subsets for s in (None, 'HUP', 'INT')]
        for max_fails in (-1, 1, 2):
            for hist in itertools.product(events, repeat=2):
                pr = run_history(nworkers, max_fails, list(hist) + [((), None), ((), None)], via_run_worker=True); n += 1
                if pr and len(fails) < 200: fails.append({'key': f"run_worker workers={nworkers} max_fails={max_fails} history={hist}", 'config': {'entry': 'run_worker', 'workers': nworkers, 'max_fails': max_fails, 'ticks': [list(map(str, h)) for h in hist]}, 'failed_clauses': pr[:5]})
    return {'reproduced': bool(fails), 'runs': n, 'n_failures': len(fails), 'failures': fails[:400], 'bound': 'worker counts 1..2, all event histories of 3 ticks (+2 quiet ticks), max_fails in {-1,1,2}; bursts of 300 reload requests; 5 long histories (five deaths, then SIGINT) in pid spaces of 2-4 recycled pids'}

if __name__ == '__main__':
    sc = json.load(open(sys.argv[1])) if len(sys.argv) > 1 else {}
    print(json.dumps(run(sc.get('scenario', sc)), default=str))
