#!/usr/bin/env python3
"""tools/import_seed.py <src-dir> <seed-id> <property>  : verify a seeded change in the scratch worktree, run the checks against it (applied to /repo, undone
straight afterwards) and store it as seeded/<seed-id>/{patch.diff, demo.py, meta.json}."""
import sys, os, subprocess, json, shutil, re
ROOT = os.path.dirname(os.path.dirname(os.path.abspath(__file__)))
src, sid, prop = sys.argv[1], sys.argv[2], sys.argv[3]
dst = os.path.join(ROOT, 'seeded', sid); os.makedirs(dst, exist_ok=True)
for f in ('patch.diff', 'demo.py'): shutil.copy(os.path.join(src, f), os.path.join(dst, f))
notes = open(os.path.join(src, 'notes.md')).read() if os.path.exists(os.path.join(src, 'notes.md')) else ''
v = subprocess.run([os.path.join(ROOT, 'tools', 'verify_seed.sh'), src], capture_output=True, text=True).stdout.strip().splitlines()
s = subprocess.run([os.path.join(ROOT, 'tools', 'seedtest.py'), src], capture_output=True, text=True).stdout
caught = re.search(r"CAUGHT by: (\[.*?\]|NONE)", s); und = re.search(r"undecided: (\[.*?\])", s)
viol = [l.strip() for l in s.splitlines() if 'VIOLATION' in l]
files = sorted(set(re.findall(r"^\+\+\+ b/(.*)$", open(os.path.join(dst, 'patch.diff')).read(), re.M)))
m = re.search(r"(?is)(needs?[^\n]*manifest[^\n]*\n(?:.+\n){0,8})", notes)
meta = {'seed': sid, 'property': prop, 'files_changed': files, 'origin': 'independent sub-agent given only the property text and its own scratch worktree',
        'what_it_needs_to_manifest': (m.group(1).strip()[:900] if m else notes[:900]),
        'verification_in_scratch_worktree': v[:1], 'ran': ['tools/verify_seed.sh (git apply in /tmp/wt/verify; baseline test-suite; demo with and without the patch)', 'tools/seedtest.py (git -C /repo apply; ./check for all 20 properties; git -C /repo checkout -- .)'],
        'checks_reporting_a_violation': eval(caught.group(1)) if caught and caught.group(1) != 'NONE' else [], 'checks_undecided': eval(und.group(1)) if und else [],
        'violation_lines': viol[:12], 'replayed_natively': any('no-failing-input-found' not in l for l in viol)}
json.dump(meta, open(os.path.join(dst, 'meta.json'), 'w'), indent=1)
print(sid, prop, 'caught by', meta['checks_reporting_a_violation'], 'native', meta['replayed_natively'], '|', v[:1])
