"""Unit `broker`: taskiq/abc/broker.py — AsyncBroker.add_middlewares, with_middlewares, get_all_tasks, find_task: the registry helpers the hook loops
(C10), the label schedule source (C16) and the receiver's task lookup (C01, C06) read from.

add_middlewares / with_middlewares: every given middleware (instances of TaskiqMiddleware: the precondition) is bound to this broker
(set_broker(self)) and appended to broker.middlewares, all of them, in the order given, after the ones already there; with_middlewares returns
the broker.  get_all_tasks: the union of the global and the broker's own registry, the broker's own task winning for a name present in both.
find_task: the broker's own task of that name if there is one, else the global one, else None."""
import ast
from z3 import *
import z3 as _z3
from pyvc.core import *

PROPS = ['C10', 'C16', 'C01', 'C06']
REL = 'taskiq/abc/broker.py'
TRUSTED = ["registered tasks are truthy objects (AsyncTaskiqDecoratedTask defines neither __bool__ nor __len__)", "dict(...)/{**a, **b}: later entries win; list.append appends at the end"]


def generate(src):
    self_a, mws_a, cur_a, glob_a, loc_a = Ints('self_a given_middlewares broker_middlewares global_registry local_registry')
    j = Int('j'); key = Const('key', Val)
    for fname, returns_self in (('add_middlewares', False), ('with_middlewares', True)):
        fd = src.func(REL, 'AsyncBroker.' + fname)
        st = State(); h = st.heap; n = h.llen[mws_a]; n0 = h.llen[cur_a]; GIVEN = h.litem[mws_a]; OLD = h.litem[cur_a]
        if not fd.args.vararg: raise Unsupported(fname + ": expected *middlewares")
        st.env = {'self': PyObj(self_a), fd.args.vararg.arg: PyList(mws_a)}
        h.fld['middlewares'] = Store(h.field('middlewares'), self_a, Val.ref(cur_a))
        st.pc += [Distinct(self_a, mws_a, cur_a), n >= 0, n0 >= 0]
        bound = Function('set_broker_called_' + fname, IntSort(), BoolSort())          # ghost: position j of the given middlewares was bound to the broker
        st.ghost = dict(bound=_z3.K(IntSort(), False), idx=None)
        def Inv(s, i):
            hh = s.heap
            return [hh.llen[cur_a] == n0 + i, hh.llen[mws_a] == n, hh.litem[mws_a] == GIVEN, hh.field('middlewares')[self_a] == Val.ref(cur_a),
                    ForAll([j], Implies(And(0 <= j, j < n0), hh.litem[cur_a][j] == OLD[j])),
                    ForAll([j], Implies(And(0 <= j, j < i), And(hh.litem[cur_a][n0 + j] == GIVEN[j], s.ghost['bound'][j])))]
        TXT = ["broker.middlewares grows by one per middleware visited", "the given middlewares are not modified", "the given middlewares are not modified", "broker.middlewares stays the same list",
               "middlewares registered earlier keep their positions", "every middleware visited so far is bound to the broker and appended, in the order given"]
        def h_for(ex, s, st_, k, K, fname=fname, Inv=Inv, n=n, GIVEN=GIVEN):
            if ast.unparse(s.iter) != fd.args.vararg.arg or not isinstance(s.target, ast.Name): raise Unsupported(fname + ": loop over " + ast.unparse(s.iter))
            for c, tx in zip(Inv(st_, IntVal(0)), TXT): oblige(st_, f"{fname}/loop/inv-entry: {tx}  [C10]", c)
            it = st_.fork(); i = fresh('i', IntSort()); it.heap = it.heap.copy()
            it.heap.litem = Const('litem_h', it.heap.litem.sort()); it.heap.llen = Const('llen_h', it.heap.llen.sort()); it.ghost = dict(it.ghost); it.ghost['bound'] = Const('bound_h', ArraySort(IntSort(), BoolSort()))
            it.pc += [i >= 0, i < n]; assume(it, Inv(it, i)); it.env = dict(it.env); it.env[s.target.id] = GIVEN[i]; it.ghost['idx'] = i
            def back(s3):
                for c, tx in zip(Inv(s3, i + 1), TXT): oblige(s3, f"{fname}/loop/inv-preserved: {tx}  [C10]", c)
            K2 = dict(K); K2['cont'] = back
            K2['brk'] = lambda s3: oblige(s3, f"{fname}/loop: no early exit - EVERY given middleware is registered  [C10]", BoolVal(False))
            K2['ret'] = lambda s3, v: oblige(s3, f"{fname}/loop: no return from inside the loop - EVERY given middleware is registered  [C10]", BoolVal(False))
            ex.block(s.body, it, back, K2)
            out = st_.fork(); out.heap = out.heap.copy(); out.heap.litem = Const('litem_o', out.heap.litem.sort()); out.heap.llen = Const('llen_o', out.heap.llen.sort())
            out.ghost = dict(out.ghost); out.ghost['bound'] = Const('bound_o', ArraySort(IntSort(), BoolSort())); assume(out, Inv(out, n)); return k(out)
        def h_isinstance(ex, st_, e, recv, args, kw, k, K): return k(st_, PyBool(BoolVal(True)))          # precondition: every given object is a TaskiqMiddleware
        def h_set_broker(ex, st_, e, recv, args, kw, k, K):
            i = st_.ghost['idx']
            oblige(st_, f"{fname}/set_broker: the middleware is bound to THIS broker  [C10]", to_val(args[0]) == Val.ref(self_a) if args else BoolVal(False))
            st_.ghost = dict(st_.ghost); st_.ghost['bound'] = Store(st_.ghost['bound'], i, True); return k(st_, None)
        ex = Exec({'@for': h_for, 'isinstance': h_isinstance, '*.set_broker': h_set_broker, 'logger.*': noop}, attr_kinds={'self.middlewares': 'list'})
        def on_ret(s, v, fname=fname, returns_self=returns_self, n=n, n0=n0, GIVEN=GIVEN):
            hh = s.heap
            oblige(s, f"{fname}/post: all given middlewares are registered after the existing ones, in the order given, each bound to the broker  [C10]",
                   And(hh.llen[cur_a] == n0 + n, ForAll([j], Implies(And(0 <= j, j < n), And(hh.litem[cur_a][n0 + j] == GIVEN[j], s.ghost['bound'][j])))))
            if returns_self: oblige(s, f"{fname}/post: returns the broker itself  [C10]", to_val(v) == Val.ref(self_a))
            reach(s, f"{fname}/reach@return")
        ex.run(fd, st, on_ret, lambda s, x: oblige(s, f"{fname}/raises: nothing  [C10]", BoolVal(False)))
    # ---------------- get_all_tasks / find_task
    class ExD(Exec):
        def ev_Dict(self, e, st, k, K):
            if not e.keys or any(x is not None for x in e.keys): return super().ev_Dict(e, st, k, K)
            def got(s, ds):          # {**a, **b, ...}: later entries win
                if not all(isinstance(d, PyDict) for d in ds): raise Unsupported("dict unpacking of a non-dict: " + ast.unparse(e))
                r = alloc(s); has = Or(*[s.heap.dhas[d.addr][key] for d in ds]); val = s.heap.dval[ds[0].addr][key]
                for d in ds[1:]: val = If(s.heap.dhas[d.addr][key], s.heap.dval[d.addr][key], val)
                s.facts.append(ForAll([key], And(s.heap.dhas[r][key] == has, s.heap.dval[r][key] == val))); return k(s, PyDict(r))
            return self.ev_list(e.values, st, got, K)
    def h_get(ex, st, e, d, args, kw, k, K):
        kx = to_val(args[0]); return k(st, If(st.heap.dhas[d.addr][kx], st.heap.dval[d.addr][kx], to_val(args[1]) if len(args) > 1 else Val.none))
    exd = ExD({'dict.get': h_get}, attr_kinds={'self.global_task_registry': 'dict', 'self.local_task_registry': 'dict'})
    def mk():
        s = State(); s.env = {'self': PyObj(self_a)}
        s.heap.fld['global_task_registry'] = Store(s.heap.field('global_task_registry'), self_a, Val.ref(glob_a)); s.heap.fld['local_task_registry'] = Store(s.heap.field('local_task_registry'), self_a, Val.ref(loc_a))
        s.pc += [Distinct(self_a, glob_a, loc_a), s.heap.next > self_a, s.heap.next > glob_a, s.heap.next > loc_a]
        s.facts += [ForAll([key], Implies(s.heap.dhas[glob_a][key], Val.is_ref(s.heap.dval[glob_a][key]))), ForAll([key], Implies(s.heap.dhas[loc_a][key], Val.is_ref(s.heap.dval[loc_a][key])))]          # tasks are objects (truthy)
        return s
    s0 = mk(); G0, L0, GH, LH = s0.heap.dval[glob_a], s0.heap.dval[loc_a], s0.heap.dhas[glob_a], s0.heap.dhas[loc_a]
    def g_ret(s, v):
        if not isinstance(v, PyDict): oblige(s, "get_all_tasks/post: returns a dict  [C16]", BoolVal(False)); return
        oblige(s, "get_all_tasks/post: exactly the names registered globally or on this broker; for a name in both, the broker's OWN task  [C16]",
               ForAll([key], And(s.heap.dhas[v.addr][key] == Or(GH[key], LH[key]), Implies(Or(GH[key], LH[key]), s.heap.dval[v.addr][key] == If(LH[key], L0[key], G0[key])))))
        oblige(s, "get_all_tasks/frame: the registries themselves are not modified  [C16]", And(s.heap.dval[glob_a] == G0, s.heap.dval[loc_a] == L0, s.heap.dhas[glob_a] == GH, s.heap.dhas[loc_a] == LH))
        reach(s, "get_all_tasks/reach@return")
    exd.run(src.func(REL, 'AsyncBroker.get_all_tasks'), s0, g_ret, lambda s, x: oblige(s, "get_all_tasks/raises: nothing  [C16]", BoolVal(False)))
    s1 = mk(); name = fresh('task_name'); s1.env['task_name'] = name
    def f_ret(s, v):
        oblige(s, "find_task/post: the broker's own task of that name if there is one, else the globally registered one, else None  [C01/C06]",
               to_val(v) == If(LH[name], L0[name], If(GH[name], G0[name], Val.none)))
        reach(s, "find_task/reach@return")
    exd.run(src.func(REL, 'AsyncBroker.find_task'), s1, f_ret, lambda s, x: oblige(s, "find_task/raises: nothing  [C01]", BoolVal(False)))
    return {}
