"""Property C19 demo: any task exception survives result serialisation.

Standalone.  Run as

    cd /tmp/wt/C19 && PYTHONPATH=/tmp/wt/C19 /venv/bin/python <path>/demo.py

What is checked (exit status 0 = everything held, 1 = a violation was found)

 * storing an error through JSON (direct, JSON text, JSON dict) or pickle
   (direct, whole TaskiqResult) and loading it back never fails;
 * the loaded error is an exception of the original class with equal
   arguments when the class is importable, has a regular constructor and the
   arguments are representable; otherwise it is an accepted stand-in: a
   same-named synthetic class, a base class of the original class, or a
   generic / wrapper exception whose text names the original class;
   un-encodable arguments come back as their text form;
 * with JSON the cause link, the context link unless suppressed and the
   suppress-context flag are preserved along the whole chain, only links back
   to an exception that is already on the path are cut.

Scenarios

 1. hand written graphs (plain chains, raise-from, self loops, 2-cycles,
    diamonds, shared nodes reachable through and around a cycle);
 2. a seeded random sweep: graphs of up to 6 nodes, classes drawn from
    builtin / module-level / nested / local / dynamically created / custom
    __init__ / BaseException subclasses, arguments drawn from JSON-native,
    non-JSON, unpicklable and un-repr-able values, every cause / context /
    suppress combination, shared nodes and cycles;
 3. state and fault cases of the walk over the chain: the same graph twice,
    a coder that blows up (KeyboardInterrupt) in the middle of the walk and
    the next, unrelated call; a nested (re-entrant) preparation started from
    inside the outer one, in the same thread and in another thread; fresh
    threads one after the other;
 4. stand-in classes on the load side: the same unimportable class loaded
    several times, a class that becomes importable between two loads and
    disappears again, many distinct unimportable classes, instances loaded
    from the same text are independent objects.

Everything is deterministic (fixed seed, no real concurrency: helper threads
are always joined before the caller goes on).
"""

import json
import pickle
import random
import sys
import threading
import time
import types
from typing import Any, Callable, Dict, List, Optional, Tuple

from taskiq.result import TaskiqResult
from taskiq.serialization import (
    _UnpickleableExceptionWrapper,
    exception_to_python,
    prepare_exception,
)

PROBLEMS: List[str] = []
COUNTS: Dict[str, int] = {}


def problem(text: str) -> None:
    if len(PROBLEMS) < 60:
        PROBLEMS.append(text)


def count(kind: str) -> None:
    COUNTS[kind] = COUNTS.get(kind, 0) + 1


# --------------------------------------------------------------------------
# classes
# --------------------------------------------------------------------------
class ModError(Exception):
    """Module level, importable."""


class ModSubError(ModError):
    """Module level subclass."""


class ModKeyError(KeyError):
    """Module level subclass of a builtin."""


class ModBaseError(BaseException):
    """Module level BaseException subclass."""


class Outer:
    class InnerError(Exception):
        """Nested, importable through its qualified name."""

    class Deeper:
        class DeepError(ValueError):
            """Nested twice."""


class ParamError(Exception):
    """One positional parameter, Exception.__init__ is not called."""

    def __init__(self, param: Any) -> None:
        self.param = param


class TwoArgsError(Exception):
    """Constructor signature differs from args."""

    def __init__(self, left: Any, right: Any) -> None:
        super().__init__(f"{left}-{right}")
        self.left = left
        self.right = right


class KwOnlyError(ValueError):
    """Keyword only constructor."""

    def __init__(self, *, code: int = 1) -> None:
        super().__init__(code)
        self.code = code


class ApiError(Exception):
    """Constructor processes its argument; feeding args back raises."""

    def __init__(self, response: Any) -> None:
        super().__init__(f"HTTP {response.status}")


class _Response:
    status = 502


def local_class(base: type, name: str = "LocalError") -> type:
    class LocalError(base):  # type: ignore
        pass

    LocalError.__name__ = name
    LocalError.__qualname__ = f"local_class.<locals>.{name}"
    return LocalError


def dynamic_class(name: str, base: type, module: str) -> type:
    return type(name, (base,), {"__module__": module})


# --------------------------------------------------------------------------
# argument values
# --------------------------------------------------------------------------
class Unprintable:
    """Neither repr() nor str() work."""

    def __repr__(self) -> str:
        raise ValueError("no repr")

    def __str__(self) -> str:
        raise ValueError("no str")


class UnprintableUnpicklable(Unprintable):
    def __reduce__(self) -> Any:
        raise TypeError("no pickle")


class Plain:
    """Picklable, printable, not JSON."""

    def __init__(self, value: int) -> None:
        self.value = value

    def __eq__(self, other: Any) -> bool:
        return isinstance(other, Plain) and other.value == self.value

    def __hash__(self) -> int:
        return hash(self.value)

    def __repr__(self) -> str:
        return f"Plain({self.value})"


def _gen() -> Any:
    yield 1


ARG_MAKERS: List[Callable[[], Tuple[Any, ...]]] = [
    lambda: (),
    lambda: ("msg",),
    lambda: (1, 2.5, None, True),
    lambda: (["a", 1, None], {"k": [1, {"z": False}]}),
    lambda: ("ά \U0001f600",),
    lambda: (2, "No such file"),
    lambda: ((1, 2), "tuple"),
    lambda: ({1: "int key"},),
    lambda: ({1, 2, 3},),
    lambda: (b"bytes", 7),
    lambda: (Plain(4), "plain"),
    lambda: (object,),
    lambda: (lambda: 1, "lambda"),
    lambda: (threading.Lock(),),
    lambda: (_gen(), 3),
    lambda: (Unprintable(),),
    lambda: ("x", UnprintableUnpicklable(), 5),
    lambda: (10**30, -0.0, "big"),
]


def json_ok(value: Any) -> bool:
    try:
        json.loads(json.dumps(value))
        return True
    except Exception:
        return False


def pickle_ok(value: Any) -> bool:
    try:
        pickle.loads(pickle.dumps(value))
        return True
    except Exception:
        return False


def printable(value: Any) -> bool:
    try:
        repr(value)
        return True
    except Exception:
        return False


def arg_matches(loaded: Any, orig: Any, mode: str) -> bool:
    """Is `loaded` what the encoding makes out of `orig`."""
    if mode.startswith("json"):
        if json_ok(orig):
            if mode == "json-direct":
                return bool(loaded == orig)
            return bool(loaded == json.loads(json.dumps(orig)))
    elif pickle_ok(orig):
        if loaded == orig:
            return True
        # objects without __eq__ come back as copies
        return type(loaded) is type(orig) and not hasattr(type(orig), "__eq__")
    # text form
    if not isinstance(loaded, str):
        return False
    if printable(orig):
        return loaded == repr(orig)
    return "Unrepresentable" in loaded or loaded == str(orig)


def args_match(loaded: Tuple[Any, ...], orig: Tuple[Any, ...], mode: str) -> bool:
    if len(loaded) != len(orig):
        return False
    for new, old in zip(loaded, orig):
        if not arg_matches(new, old, mode):
            # pickled plain objects: compare state
            if (
                mode.startswith("pickle")
                and type(new) is type(old)
                and getattr(new, "__dict__", None) == getattr(old, "__dict__", 0)
            ):
                continue
            return False
    return True


# --------------------------------------------------------------------------
# nodes
# --------------------------------------------------------------------------
class Spec:
    """How a node was built and what may be expected from it."""

    def __init__(self, exact_json: bool, exact_pickle: bool) -> None:
        self.exact_json = exact_json
        self.exact_pickle = exact_pickle


SPECS: Dict[int, Spec] = {}
KEEP_ALIVE: List[BaseException] = []


def node(cls: type, args: Tuple[Any, ...], exact_json: bool, exact_pickle: bool) -> Any:
    exc = cls(*args)
    return register(exc, exact_json, exact_pickle)


def register(exc: BaseException, exact_json: bool, exact_pickle: bool) -> Any:
    KEEP_ALIVE.append(exc)
    SPECS[id(exc)] = Spec(exact_json, exact_pickle)
    return exc


def class_makers() -> List[Callable[[Tuple[Any, ...]], BaseException]]:
    """Node factories; every one takes the args tuple."""

    def simple(cls: type, importable: bool = True) -> Any:
        return lambda args: node(cls, args, importable, importable)

    makers: List[Callable[[Tuple[Any, ...]], BaseException]] = [
        simple(ValueError),
        simple(KeyError),
        simple(RuntimeError),
        simple(LookupError),
        simple(Exception),
        simple(ModError),
        simple(ModSubError),
        simple(ModKeyError),
        simple(Outer.InnerError),
        simple(Outer.Deeper.DeepError),
        # BaseException subclasses
        simple(KeyboardInterrupt),
        simple(GeneratorExit),
        simple(ModBaseError),
        simple(BaseException),
        lambda args: node(SystemExit, args[:1], True, True),
        # OSError re-interprets (errno, strerror): keep to one argument
        lambda args: node(OSError, args[:1], True, True),
        # local and dynamic classes: not importable
        lambda args: node(local_class(Exception), args, False, False),
        lambda args: node(local_class(ValueError, "LocalValueError"), args, False, False),
        lambda args: node(local_class(BaseException, "LocalBase"), args, False, False),
        lambda args: node(local_class(ModError, "LocalMod"), args, False, False),
        lambda args: node(dynamic_class("GhostError", Exception, "ghost.pkg"), args, False, False),
        lambda args: node(dynamic_class("GhostKeyError", KeyError, "ghost.pkg.sub"), args, False, False),
        # custom constructors
        lambda args: register(ParamError(args[0] if args else None), True, True),
        lambda args: register(TwoArgsError(len(args), "x"), False, False),
        lambda args: register(KwOnlyError(code=len(args)), False, False),
        lambda args: register(ApiError(_Response()), False, False),
    ]
    return makers


def importable(cls: type) -> bool:
    obj: Any = sys.modules.get(cls.__module__)
    if obj is None:
        return False
    for part in cls.__qualname__.split("."):
        obj = getattr(obj, part, None)
        if obj is None:
            return False
    return obj is cls


def node_ok(orig: BaseException, loaded: Any, mode: str, where: str) -> bool:
    """Check one loaded exception against the original one."""
    if not isinstance(loaded, BaseException):
        problem(f"{where}: loaded {loaded!r} is not an exception")
        return False
    cls = type(orig)
    spec = SPECS[id(orig)]
    js = mode.startswith("json")
    name = cls.__name__
    try:
        orig_args = tuple(orig.args)
    except Exception:  # pragma: no cover
        orig_args = ()

    if type(loaded) is cls:
        if args_match(loaded.args, orig_args, mode):
            count("original class")
            return True
        problem(f"{where}: {name}: args {loaded.args!r} differ from the original ones")
        return False

    all_representable = all((json_ok if js else pickle_ok)(a) for a in orig_args)
    must_be_exact = (spec.exact_json and importable(cls)) if js else (
        spec.exact_pickle and importable(cls) and all_representable
    )
    if must_be_exact:
        problem(
            f"{where}: importable class {cls.__module__}.{cls.__qualname__} was "
            f"loaded as {type(loaded).__module__}.{type(loaded).__qualname__}",
        )
        return False

    lname = type(loaded).__name__
    if lname in (name, cls.__qualname__):
        if args_match(loaded.args, orig_args, mode):
            count("same-named synthetic class")
            return True
        problem(f"{where}: synthetic {lname}: args {loaded.args!r} differ")
        return False
    if type(loaded) in cls.__mro__[1:] and type(loaded) not in (
        Exception,
        BaseException,
        object,
    ):
        if args_match(loaded.args, orig_args, mode):
            count("nearest base class")
            return True
        problem(f"{where}: base class {lname}: args {loaded.args!r} differ")
        return False
    if type(loaded) is Exception or isinstance(loaded, _UnpickleableExceptionWrapper):
        text = str(loaded) + " " + " ".join(
            a for a in loaded.args if isinstance(a, str)
        )
        if name in text:
            count("generic / wrapper naming the class")
            return True
        problem(f"{where}: generic stand-in {text[:80]!r} does not name {name}")
        return False
    problem(f"{where}: {name} loaded as unrelated {type(loaded)!r}")
    return False


def compare_chain(
    orig: BaseException,
    loaded: Any,
    path: Tuple[int, ...],
    where: str,
    mode: str,
) -> None:
    """Compare a JSON-loaded chain with the original, cutting back links."""
    if not node_ok(orig, loaded, mode, where):
        return
    if loaded.__suppress_context__ != orig.__suppress_context__:
        problem(
            f"{where}: suppress flag {orig.__suppress_context__} loaded as "
            f"{loaded.__suppress_context__}",
        )
    path = (*path, id(orig))

    cause = orig.__cause__
    if cause is None or id(cause) in path:
        if loaded.__cause__ is not None:
            problem(f"{where}.cause: expected no link, got {loaded.__cause__!r}")
    elif loaded.__cause__ is None:
        problem(f"{where}.cause: link to a {type(cause).__name__} off the path was lost")
    else:
        compare_chain(cause, loaded.__cause__, path, where + ".cause", mode)

    context = orig.__context__
    if context is None or orig.__suppress_context__ or id(context) in path:
        if loaded.__context__ is not None:
            problem(f"{where}.context: expected no link, got {loaded.__context__!r}")
    elif loaded.__context__ is None:
        problem(
            f"{where}.context: link to a {type(context).__name__} off the path was lost",
        )
    else:
        compare_chain(context, loaded.__context__, path, where + ".context", mode)


def result_of(exc: BaseException) -> "TaskiqResult[Any]":
    return TaskiqResult(
        is_err=True,
        return_value=None,
        execution_time=0.1,
        error=exc,
    )


def json_trips(exc: BaseException) -> List[Tuple[str, Any]]:
    out: List[Tuple[str, Any]] = []
    out.append(("json-direct", exception_to_python(prepare_exception(exc, json))))
    res = result_of(exc)
    text = res.model_dump_json()
    out.append(("json-text", TaskiqResult.model_validate_json(text).error))
    dumped = json.loads(json.dumps(res.model_dump(mode="json")))
    out.append(("json-dict", TaskiqResult.model_validate(dumped).error))
    return out


def pickle_trips(exc: BaseException) -> List[Tuple[str, Any]]:
    out: List[Tuple[str, Any]] = []
    prepared = pickle.loads(pickle.dumps(prepare_exception(exc, pickle)))
    out.append(("pickle-direct", exception_to_python(prepared)))
    res = pickle.loads(pickle.dumps(result_of(exc)))
    out.append(("pickle-result", res.error))
    return out


def check_graph(label: str, exc: BaseException, with_pickle: bool = True) -> None:
    try:
        trips = json_trips(exc)
    except BaseException as err:  # noqa: BLE001
        problem(f"{label}: JSON round trip failed: {type(err).__name__}: {str(err)[:120]}")
        trips = []
    for mode, loaded in trips:
        compare_chain(exc, loaded, (), f"{label}[{mode}] top", mode)
    if not with_pickle:
        return
    try:
        trips = pickle_trips(exc)
    except BaseException as err:  # noqa: BLE001
        problem(f"{label}: pickle round trip failed: {type(err).__name__}: {str(err)[:120]}")
        trips = []
    for mode, loaded in trips:
        node_ok(exc, loaded, mode, f"{label}[{mode}] top")


def link(
    exc: BaseException,
    cause: Optional[BaseException] = None,
    context: Optional[BaseException] = None,
    suppress: Optional[bool] = None,
) -> BaseException:
    if cause is not None:
        exc.__cause__ = cause
    if context is not None:
        exc.__context__ = context
    if suppress is not None:
        exc.__suppress_context__ = suppress
    return exc


def simple(cls: type, *args: Any) -> BaseException:
    return node(cls, args, True, True)


# --------------------------------------------------------------------------
# 1. hand written graphs
# --------------------------------------------------------------------------
def g_single() -> BaseException:
    return simple(ModError, "only", 1)


def g_raise_from() -> BaseException:
    ctx, cause, top = simple(ValueError, "ctx"), simple(KeyError, "cause"), simple(ModError, "top")
    try:
        try:
            raise ctx
        except Exception:
            raise top from cause
    except Exception as exc:
        return exc


def g_implicit_context() -> BaseException:
    ctx, top = simple(ValueError, "ctx"), simple(Outer.InnerError, "top")
    try:
        try:
            raise ctx
        except Exception:
            raise top  # noqa: B904
    except Exception as exc:
        return exc


def g_from_none() -> BaseException:
    ctx, top = simple(ValueError, "ctx"), simple(RuntimeError, "top")
    try:
        try:
            raise ctx
        except Exception:
            raise top from None
    except Exception as exc:
        return exc


def g_self_loop() -> BaseException:
    top = simple(KeyError, "bar")
    return link(top, cause=top, context=top, suppress=False)


def g_two_cycle() -> BaseException:
    top, other = simple(ValueError, "top"), simple(ModKeyError, "other")
    link(other, cause=top)
    return link(top, cause=other)


def g_diamond() -> BaseException:
    top, left, right, tail = (
        simple(ValueError, "top"),
        simple(KeyError, "left"),
        simple(ModError, "right"),
        simple(OSError, "tail"),
    )
    link(left, cause=tail)
    link(right, context=tail)
    return link(top, cause=left, context=right, suppress=False)


def g_shared_through_cycle() -> BaseException:
    top, b, c = simple(ValueError, "top"), simple(KeyError, "b"), simple(ModError, "c", 3)
    link(b, cause=c)
    link(c, cause=b)
    return link(top, cause=b, context=c, suppress=False)


def g_deep_shared() -> BaseException:
    top, mid = simple(ModError, "top"), simple(ValueError, "mid")
    x, y = simple(KeyError, "x"), simple(ModSubError, "y", "z")
    link(x, cause=y)
    link(y, context=x)
    link(mid, cause=x, context=y, suppress=False)
    return link(top, cause=mid)


def g_six_deep() -> BaseException:
    nodes = [simple(ModError, "n", i) for i in range(6)]
    for i in range(5):
        if i % 2:
            link(nodes[i], cause=nodes[i + 1])
        else:
            link(nodes[i], context=nodes[i + 1])
    link(nodes[5], cause=nodes[2])  # back into the middle
    return nodes[0]


def g_local_chain() -> BaseException:
    top = node(local_class(Exception, "LocalTop"), ("top", lambda: 0), False, False)
    mid = node(dynamic_class("GhostMid", KeyError, "ghost.pkg"), ("mid",), False, False)
    tail = register(TwoArgsError(1, 2), False, False)
    link(mid, context=tail)
    link(tail, cause=top)
    return link(top, cause=mid)


HAND_GRAPHS = [
    g_single,
    g_raise_from,
    g_implicit_context,
    g_from_none,
    g_self_loop,
    g_two_cycle,
    g_diamond,
    g_shared_through_cycle,
    g_deep_shared,
    g_six_deep,
    g_local_chain,
]


def scenario_hand_graphs() -> None:
    for make in HAND_GRAPHS:
        for turn in range(2):  # twice: nothing may leak from one call to the next
            check_graph(f"{make.__name__}#{turn}", make())


# --------------------------------------------------------------------------
# 2. seeded random sweep
# --------------------------------------------------------------------------
def random_graph(rng: random.Random, size: int) -> BaseException:
    makers = class_makers()
    nodes = [rng.choice(makers)(rng.choice(ARG_MAKERS)()) for _ in range(size)]
    for i, exc in enumerate(nodes):
        # mostly forward links (depth), sometimes shared / backward / self links
        def pick() -> Optional[BaseException]:
            roll = rng.random()
            if roll < 0.25:
                return None
            if roll < 0.70 and i + 1 < size:
                return nodes[i + 1]
            return rng.choice(nodes)

        cause, context = pick(), pick()
        if cause is not None:
            exc.__cause__ = cause  # sets the suppress flag, as `raise from` does
        if context is not None:
            exc.__context__ = context
        roll = rng.random()
        if roll < 0.35:
            exc.__suppress_context__ = False
        elif roll < 0.5:
            exc.__suppress_context__ = True
    return nodes[0]


def scenario_random_sweep() -> None:
    rng = random.Random(19)
    for number in range(140):
        size = 1 + number % 6
        check_graph(f"random{number}(size {size})", random_graph(rng, size))


def scenario_every_class_and_args() -> None:
    """Every class with every args tuple, as a single node and as a cause."""
    makers = class_makers()
    for ci, make in enumerate(makers):
        for ai, make_args in enumerate(ARG_MAKERS):
            exc = make(make_args())
            check_graph(f"class{ci}/args{ai}", exc)
    for ci, make in enumerate(makers):
        top = simple(ModError, "top")
        inner = make(ARG_MAKERS[(ci * 5) % len(ARG_MAKERS)]())
        link(inner, context=top)
        check_graph(f"class{ci} as cause", link(top, cause=inner), with_pickle=False)


# --------------------------------------------------------------------------
# 3. state and faults of the walk
# --------------------------------------------------------------------------
class ExplodingCoder:
    """json, but the n-th dumps raises KeyboardInterrupt."""

    def __init__(self, explode_at: int) -> None:
        self.calls = 0
        self.explode_at = explode_at

    def dumps(self, value: Any) -> str:
        self.calls += 1
        if self.calls == self.explode_at:
            raise KeyboardInterrupt("operator pressed ^C while the result was encoded")
        return json.dumps(value)

    def loads(self, value: str) -> Any:
        return json.loads(value)


def scenario_fault_in_the_middle() -> None:
    for explode_at in (1, 2, 3, 5, 8, 13, 21, 34):
        doomed = g_shared_through_cycle()
        try:
            prepare_exception(doomed, ExplodingCoder(explode_at))
        except KeyboardInterrupt:
            pass
        except BaseException as err:  # noqa: BLE001
            problem(f"fault@{explode_at}: unexpected {err!r}")
        # the interrupted graph itself and an unrelated one, right afterwards
        check_graph(f"fault@{explode_at} same graph again", doomed, with_pickle=False)
        check_graph(f"fault@{explode_at} next graph", g_deep_shared(), with_pickle=False)


class Hook:
    """An exception argument that runs a callback when it is encoded."""

    def __init__(self, callback: Callable[[], None]) -> None:
        self.callback = callback

    def __repr__(self) -> str:
        return "Hook()"


class HookCoder:
    """json that lets `Hook` arguments run their callback, then fails on them."""

    @staticmethod
    def dumps(value: Any) -> str:
        def default(obj: Any) -> Any:
            if isinstance(obj, Hook):
                obj.callback()
            raise TypeError("not JSON")

        return json.dumps(value, default=default)

    @staticmethod
    def loads(value: str) -> Any:
        return json.loads(value)


def scenario_reentrant() -> None:
    """A nested preparation in the middle of an (acyclic) outer one."""
    seen_inner: List[str] = []

    def inner_round_trip() -> None:
        graph = g_shared_through_cycle()
        before = len(PROBLEMS)
        check_graph("nested graph", graph, with_pickle=False)
        seen_inner.append("ok" if len(PROBLEMS) == before else "bad")

    def in_thread() -> None:
        thread = threading.Thread(target=inner_round_trip)
        thread.start()
        thread.join()

    for kind, callback in (("same thread", inner_round_trip), ("other thread", in_thread)):
        tail = simple(KeyError, "tail")
        mid = node(ValueError, ("mid", Hook(callback)), True, True)
        top = simple(ModError, "top")
        link(mid, cause=tail)
        link(top, cause=mid, context=tail, suppress=False)
        prepared = prepare_exception(top, HookCoder)
        loaded = exception_to_python(prepared)
        # Hook is not JSON: comes back as its text form.
        compare_chain(top, loaded, (), f"outer graph ({kind}) top", "json-direct")
    if not seen_inner or "bad" in seen_inner:
        problem(f"nested preparations: {seen_inner}")

    # an argument that is a result with an error of its own (pickle re-enters
    # prepare_exception through TaskiqResult.__getstate__)
    inner_res = result_of(g_two_cycle())
    top = node(local_class(Exception, "Carrier"), ("carrier", inner_res), False, False)
    link(top, cause=simple(KeyError, "why"))
    for mode, loaded in pickle_trips(top):
        if not isinstance(loaded, BaseException) or "Carrier" not in (
            type(loaded).__name__ + str(loaded)
        ):
            problem(f"carrier[{mode}]: loaded {loaded!r}")
        count("carrier of a nested result")


def scenario_threads_one_after_the_other() -> None:
    for number, make in enumerate((g_self_loop, g_deep_shared, g_six_deep)):
        thread = threading.Thread(
            target=check_graph,
            args=(f"thread{number}", make()),
        )
        thread.start()
        thread.join()


# --------------------------------------------------------------------------
# 4. stand-in classes on the load side
# --------------------------------------------------------------------------
def scenario_standins() -> None:
    # the same unimportable class, several times, text and dict
    cls = dynamic_class("VanishedError", Exception, "vanished.pkg")
    exc = node(cls, ("gone", 1), False, False)
    link(exc, cause=node(cls, ("why",), False, False))
    text = result_of(exc).model_dump_json()
    loaded = [TaskiqResult.model_validate_json(text).error for _ in range(3)]
    loaded.append(TaskiqResult.model_validate(json.loads(text)).error)
    for index, err in enumerate(loaded):
        compare_chain(exc, err, (), f"vanished#{index} top", "json-text")
    if len({id(err) for err in loaded}) != len(loaded):
        problem("vanished: loads returned the same exception object twice")
    loaded[0].args = ("changed",)
    loaded[0].marker = 1  # type: ignore
    if loaded[1].args != ("gone", 1) or hasattr(loaded[1], "marker"):
        problem("vanished: instances loaded from the same text share state")

    # a class that becomes importable between loads and disappears again
    late_cls = dynamic_class("LateError", KeyError, "late_mod")
    late = node(late_cls, ("late", 2), False, False)
    other_late = node(dynamic_class("LateError", Exception, "other_mod"), ("other",), False, False)
    link(late, context=other_late)
    text = result_of(late).model_dump_json()
    pickled = pickle.dumps(prepare_exception(node(late_cls, (lambda: 0,), False, False), pickle))
    for turn in range(2):
        compare_chain(late, TaskiqResult.model_validate_json(text).error, (), f"late absent#{turn} top", "json-text")
        module = types.ModuleType("late_mod")
        module.LateError = late_cls  # type: ignore
        sys.modules["late_mod"] = module
        SPECS[id(late)].exact_json = True
        try:
            err = TaskiqResult.model_validate_json(text).error
            compare_chain(late, err, (), f"late present#{turn} top", "json-text")
            if type(err) is not late_cls:
                problem("late: importable class was not used")
        finally:
            del sys.modules["late_mod"]
            SPECS[id(late)].exact_json = False
        restored = exception_to_python(pickle.loads(pickled))
        if not isinstance(restored, BaseException) or type(restored).__name__ != "LateError":
            problem(f"late: wrapper restored as {restored!r}")

    # many distinct unimportable classes, then the first ones again
    texts = []
    for number in range(700):
        many = node(dynamic_class(f"Many{number}Error", Exception, "many.pkg"), (number,), False, False)
        texts.append((many, result_of(many).model_dump_json()))
    for many, text in texts + texts[:50]:
        compare_chain(many, TaskiqResult.model_validate_json(text).error, (), f"{type(many).__name__} top", "json-text")

    # no module at all
    err = exception_to_python(
        {"exc_type": "NoModuleError", "exc_module": None, "exc_message": ["m"]},  # type: ignore
    )
    if type(err).__name__ != "NoModuleError" or err.args != ("m",):  # type: ignore
        problem(f"no module: loaded {err!r}")


SCENARIOS = [
    scenario_hand_graphs,
    scenario_every_class_and_args,
    scenario_random_sweep,
    scenario_fault_in_the_middle,
    scenario_reentrant,
    scenario_threads_one_after_the_other,
    scenario_standins,
]


def main() -> int:
    started = time.time()
    for scenario in SCENARIOS:
        before = len(PROBLEMS)
        try:
            scenario()
        except BaseException as err:  # noqa: BLE001
            problem(f"{scenario.__name__}: crashed with {type(err).__name__}: {str(err)[:200]}")
        state = "ok" if len(PROBLEMS) == before else "VIOLATED"
        print(f"{scenario.__name__:45s} {state}")
    print("loaded as:", ", ".join(f"{k}: {v}" for k, v in sorted(COUNTS.items())))
    print(f"elapsed {time.time() - started:.1f}s")
    if PROBLEMS:
        print("C19 VIOLATED")
        for line in PROBLEMS:
            print("  -", line)
        return 1
    print("C19 holds on all scenarios")
    return 0


if __name__ == "__main__":
    sys.exit(main())
