"""
C04 negative-control demo: the prefetch bound A + P + 1.

Property C04: with max_async_tasks = A and max_prefetch = P the number of
messages a worker has taken from the broker but not yet finished processing
never exceeds A + P + 1, at every instant, whatever the backlog, the arrival
pattern, the task durations and the task outcomes are.

How it is measured: the broker's listen() generator counts a message as
"taken" the moment it leaves the broker's backlog (this includes the
prefetcher's look-ahead fetch), and a message as "finished" when
Receiver.callback returns for it (a thin subclass wraps callback() in
try/finally; nothing else is overridden).  The counter `taken - finished` can
only grow inside listen(), so checking it there checks every instant of the run.

Scenarios
  1. saturated worker: backlog of 40 never-finishing tasks, all A in 1..4,
     P in 0..4; also checks that the rest of the backlog stays in the broker;
  2. idle-then-burst: the worker idles over several prefetcher poll ticks and
     then receives a burst;
  3. churn: bursts of tasks with different (deterministic) durations, all
     messages are eventually processed, bound checked at every take;
  4. faults: failing tasks, timeouts, unparsable messages, unknown tasks,
     a failing result backend;
  5. shutdown while saturated: finish_event is set, bound must hold until
     the listen() coroutine returns;
  6. drip: a saturated worker whose tasks are released one at a time while
     more messages keep arriving (messages arrive in the look-ahead fetch
     while the prefetcher is blocked waiting for a free slot);
  7. (only if the Receiver supports it) the same saturation / idle scenarios
     with non-default values of the `prefetch_poll_interval` switch, and the
     start-up validation of that switch;
  8. (only if the Receiver supports it) Receiver.get_load() snapshots are
     compared with the broker-side counters in scenarios 1, 2 and 6.

Exit code 0: bound respected everywhere.  Exit code 1: violated.
"""
import asyncio
import inspect
import logging
import sys
from typing import Any, AsyncGenerator, Dict, List, Optional, Union

from taskiq import AckableMessage, AsyncBroker, BrokerMessage
from taskiq.abc.result_backend import AsyncResultBackend
from taskiq.receiver import Receiver
from taskiq.result import TaskiqResult

logging.disable(logging.CRITICAL)

HAS_POLL_SWITCH = (
    "prefetch_poll_interval" in inspect.signature(Receiver.__init__).parameters
)
HAS_GET_LOAD = hasattr(Receiver, "get_load")


class FlakyBackend(AsyncResultBackend[Any]):
    """Result backend whose set_result fails for every third result."""

    def __init__(self) -> None:
        self.calls = 0

    async def set_result(self, task_id: str, result: TaskiqResult[Any]) -> None:
        self.calls += 1
        if self.calls % 3 == 0:
            raise RuntimeError("backend is down")

    async def is_result_ready(self, task_id: str) -> bool:
        return False

    async def get_result(self, task_id: str, with_logs: bool = False) -> Any:
        raise KeyError(task_id)


class CountingBroker(AsyncBroker):
    """Broker with an in-process backlog that counts what listen() hands out."""

    def __init__(self, backend: Optional[AsyncResultBackend[Any]] = None) -> None:
        super().__init__()
        if backend is not None:
            self.with_result_backend(backend)
        self.backlog: "asyncio.Queue[bytes]" = asyncio.Queue()
        self.taken = 0
        self.finished = 0
        self.acked = 0
        self.max_outstanding = 0
        self.corrupt_next_task_name = False

    async def kick(self, message: BrokerMessage) -> None:
        data = message.message
        if self.corrupt_next_task_name:
            # the message will name a task this worker does not know
            self.corrupt_next_task_name = False
            assert b'"fine"' in data
            data = data.replace(b'"fine"', b'"nope"')
        await self.backlog.put(data)

    def _ack(self) -> None:
        self.acked += 1

    async def listen(self) -> AsyncGenerator[Union[bytes, AckableMessage], None]:
        while True:
            data = await self.backlog.get()
            self.taken += 1
            self.max_outstanding = max(
                self.max_outstanding,
                self.taken - self.finished,
            )
            yield AckableMessage(data=data, ack=self._ack)

    @property
    def outstanding(self) -> int:
        return self.taken - self.finished


class CountingReceiver(Receiver):
    """Receiver that reports to the broker when processing of a message ends."""

    async def callback(
        self,
        message: Union[bytes, AckableMessage],
        raise_err: bool = False,
    ) -> None:
        try:
            await super().callback(message, raise_err)
        finally:
            self.broker.finished += 1  # type: ignore[attr-defined]


def make_receiver(broker: AsyncBroker, a: int, p: int, **extra: Any) -> Receiver:
    return CountingReceiver(
        broker,
        max_async_tasks=a,
        max_prefetch=p,
        run_startup=False,
        **extra,
    )


async def stop(listen_task: "asyncio.Task[Any]") -> None:
    listen_task.cancel()
    try:
        await listen_task
    except BaseException:  # noqa: BLE001
        pass


def check(
    problems: List[str],
    name: str,
    a: int,
    p: int,
    broker: CountingBroker,
) -> None:
    bound = a + p + 1
    if broker.max_outstanding > bound:
        problems.append(
            f"[{name}] A={a} P={p}: worker held {broker.max_outstanding} "
            f"unfinished messages > A+P+1 = {bound}",
        )


def check_load(
    problems: List[str],
    name: str,
    a: int,
    p: int,
    broker: CountingBroker,
    receiver: Receiver,
    saturated_now: bool,
) -> None:
    """Compare Receiver.get_load() (if it exists) with the broker's counters."""
    if not HAS_GET_LOAD:
        return
    load = receiver.get_load()  # type: ignore[attr-defined]
    bad = []
    if load["prefetched"] + load["running"] + 1 > a + p + 1:
        bad.append("prefetched + running + 1 exceeds A+P+1")
    if broker.taken - load["fetched"] not in (0, 1):
        bad.append(f"broker handed out {broker.taken}")
    if load["finished"] != broker.finished:
        bad.append(f"broker saw {broker.finished} finished")
    if load["prefetched"] != load["fetched"] - load["started"]:
        bad.append("prefetched is inconsistent")
    if load["running"] != load["started"] - load["finished"]:
        bad.append("running is inconsistent")
    if saturated_now and (load["running"], load["prefetched"]) != (a, p):
        bad.append(f"expected running={a} prefetched={p} on a saturated worker")
    if bad:
        problems.append(f"[{name}/get_load] A={a} P={p}: {load}: " + "; ".join(bad))


async def saturated(
    a: int,
    p: int,
    problems: List[str],
    name: str = "saturated",
    idle: float = 0.0,
    backlog: int = 40,
    **extra: Any,
) -> None:
    """Backlog of never-finishing tasks (optionally after an idle period)."""
    broker = CountingBroker()
    gate = asyncio.Event()

    @broker.task(task_name="slow")
    async def slow() -> None:
        await gate.wait()

    receiver = make_receiver(broker, a, p, **extra)
    finish = asyncio.Event()
    if idle == 0.0:
        for _ in range(backlog):
            await slow.kiq()
    listen_task = asyncio.create_task(receiver.listen(finish))
    if idle > 0.0:
        await asyncio.sleep(idle)
        for _ in range(backlog):
            await slow.kiq()
    await asyncio.sleep(0.15)
    check(problems, name, a, p, broker)
    bound = a + p + 1
    if broker.backlog.qsize() < backlog - bound:
        problems.append(
            f"[{name}] A={a} P={p}: only {broker.backlog.qsize()} of {backlog} "
            f"messages left in the broker, expected at least {backlog - bound}",
        )
    if broker.taken < a:
        problems.append(f"[{name}] A={a} P={p}: worker took only {broker.taken}")
    # A second burst on a saturated worker must not be touched at all.
    taken_before = broker.taken
    for _ in range(10):
        await slow.kiq()
    await asyncio.sleep(0.05)
    if broker.taken != taken_before:
        problems.append(
            f"[{name}] A={a} P={p}: a saturated worker took "
            f"{broker.taken - taken_before} more messages",
        )
    check(problems, name, a, p, broker)
    check_load(problems, name, a, p, broker, receiver, saturated_now=True)
    gate.set()
    await stop(listen_task)


async def drip(a: int, p: int, problems: List[str]) -> None:
    """Tasks of a saturated worker are released one by one, messages keep coming."""
    broker = CountingBroker()
    gates: Dict[int, asyncio.Event] = {}
    started: List[int] = []

    @broker.task(task_name="step")
    async def step(n: int) -> None:
        started.append(n)
        await gates[n].wait()

    receiver = make_receiver(broker, a, p)
    finish = asyncio.Event()
    total = 0

    async def kick(count: int) -> None:
        nonlocal total
        for _ in range(count):
            gates[total] = asyncio.Event()
            await step.kiq(total)
            total += 1

    bound = a + p + 1
    # exactly as many messages as the worker may hold: the look-ahead fetch
    # then waits on an EMPTY broker while the prefetcher waits for a slot
    await kick(bound)
    listen_task = asyncio.create_task(receiver.listen(finish))
    await asyncio.sleep(0.05)
    released = 0
    for round_no in range(24):
        # new messages arrive while the worker is saturated
        await kick(1 if round_no % 3 else 3)
        await asyncio.sleep(0.002 if round_no % 2 else 0)
        # ... then one running task ends (in start order)
        if released < len(started):
            gates[started[released]].set()
            released += 1
        # different pauses: none, one loop tick, a few milliseconds
        if round_no % 4 == 1:
            await asyncio.sleep(0)
        elif round_no % 4 >= 2:
            await asyncio.sleep(0.004)
        if broker.outstanding > bound:
            problems.append(
                f"[drip] A={a} P={p}: round {round_no}: {broker.outstanding} "
                f"unfinished > {bound}",
            )
    await asyncio.sleep(0.05)
    check(problems, "drip", a, p, broker)
    check_load(problems, "drip", a, p, broker, receiver, saturated_now=True)
    if broker.finished != released:
        problems.append(
            f"[drip] A={a} P={p}: released {released}, finished {broker.finished}",
        )
    if broker.outstanding != bound:
        problems.append(
            f"[drip] A={a} P={p}: the worker did not refill: holds "
            f"{broker.outstanding}, expected {bound}",
        )
    # release everything: the whole stream gets processed
    for _ in range(600):
        for n in started[released:]:
            gates[n].set()
        released = len(started)
        if broker.finished == total:
            break
        await asyncio.sleep(0.005)
    check(problems, "drip/end", a, p, broker)
    if broker.finished != total:
        problems.append(f"[drip] A={a} P={p}: finished {broker.finished}/{total}")
    await stop(listen_task)


async def churn(a: int, p: int, problems: List[str]) -> None:
    """Bursts of tasks with different durations; everything gets processed."""
    broker = CountingBroker()
    done: List[int] = []

    @broker.task(task_name="work")
    async def work(n: int) -> None:
        # deterministic pseudo-random duration 0..12 ms, some tasks yield only
        delay = ((n * 7919) % 13) / 1000.0
        if n % 5 == 0:
            await asyncio.sleep(0)
        else:
            await asyncio.sleep(delay)
        done.append(n)

    receiver = make_receiver(broker, a, p)
    finish = asyncio.Event()
    listen_task = asyncio.create_task(receiver.listen(finish))
    total = 0
    for burst in (1, 17, 3, 30, 9):
        for _ in range(burst):
            await work.kiq(total)
            total += 1
        await asyncio.sleep(0.02)
    for _ in range(400):
        if broker.finished == total:
            break
        await asyncio.sleep(0.01)
    check(problems, "churn", a, p, broker)
    if len(done) != total or broker.finished != total or broker.acked != total:
        problems.append(
            f"[churn] A={a} P={p}: executed {len(done)}/{total}, "
            f"finished {broker.finished}, acked {broker.acked}",
        )
    await stop(listen_task)


async def faults(a: int, p: int, problems: List[str]) -> None:
    """Failing tasks, timeouts, garbage, unknown tasks, failing backend."""
    broker = CountingBroker(FlakyBackend())
    gate = asyncio.Event()

    @broker.task(task_name="boom")
    async def boom() -> None:
        await asyncio.sleep(0.002)
        raise ValueError("boom")

    @broker.task(task_name="hang", timeout=0.03)
    async def hang() -> None:
        await gate.wait()

    @broker.task(task_name="sync_boom")
    def sync_boom() -> None:
        raise KeyError("sync boom")

    @broker.task(task_name="fine")
    async def fine() -> int:
        return 1

    receiver = make_receiver(broker, a, p)
    finish = asyncio.Event()
    listen_task = asyncio.create_task(receiver.listen(finish))
    acked_expected = 0
    dropped = 0
    for i in range(36):
        kind = i % 6
        if kind == 0:
            await boom.kiq()
            acked_expected += 1
        elif kind == 1:
            await hang.kiq()
            acked_expected += 1
        elif kind == 2:
            await broker.backlog.put(b"this is not a taskiq message")
            dropped += 1
        elif kind == 3:
            broker.corrupt_next_task_name = True
            await fine.kiq()
            dropped += 1
        elif kind == 4:
            await sync_boom.kiq()
            acked_expected += 1
        else:
            await fine.kiq()
            acked_expected += 1
        if i % 9 == 8:
            await asyncio.sleep(0.01)
    for _ in range(500):
        if broker.finished == 36:
            break
        await asyncio.sleep(0.01)
    bound = a + p + 1
    check(problems, "faults", a, p, broker)
    if broker.finished != 36 or broker.taken != 36 or broker.acked != acked_expected:
        problems.append(
            f"[faults] A={a} P={p}: taken {broker.taken}/36, finished "
            f"{broker.finished}/36, acked {broker.acked}/{acked_expected} "
            f"({dropped} messages are dropped without an ack)",
        )
    # After the faults the worker must still be bounded on a fresh backlog.

    @broker.task(task_name="slow")
    async def slow() -> None:
        await gate.wait()

    for _ in range(30):
        await slow.kiq()
    await asyncio.sleep(0.1)
    check(problems, "faults/after", a, p, broker)
    if broker.backlog.qsize() < 30 - bound:
        problems.append(
            f"[faults/after] A={a} P={p}: {broker.backlog.qsize()} left in broker",
        )
    gate.set()
    await stop(listen_task)


async def shutdown_while_saturated(a: int, p: int, problems: List[str]) -> None:
    """finish_event set on a saturated worker; run listen() to completion."""
    broker = CountingBroker()
    gate = asyncio.Event()

    @broker.task(task_name="slow")
    async def slow() -> None:
        await gate.wait()

    receiver = make_receiver(broker, a, p, wait_tasks_timeout=0.05)
    finish = asyncio.Event()
    for _ in range(25):
        await slow.kiq()
    listen_task = asyncio.create_task(receiver.listen(finish))
    await asyncio.sleep(0.1)
    finish.set()
    await asyncio.sleep(0.02)
    gate.set()
    try:
        await asyncio.wait_for(listen_task, 5)
    except BaseException as exc:  # noqa: BLE001
        problems.append(f"[shutdown] A={a} P={p}: listen() did not stop: {exc!r}")
    check(problems, "shutdown", a, p, broker)


async def poll_switch(problems: List[str]) -> None:
    """Scenarios that use the new `prefetch_poll_interval` switch."""
    for interval in (0.005, 0.05, 2.0, "0.01"):
        for a, p in ((1, 0), (2, 3), (4, 4)):
            await saturated(
                a,
                p,
                problems,
                name=f"poll={interval!r}",
                idle=0.12,
                backlog=30,
                prefetch_poll_interval=interval,
            )
            await saturated(
                a,
                p,
                problems,
                name=f"poll={interval!r}/busy",
                backlog=30,
                prefetch_poll_interval=interval,
            )
    broker = CountingBroker()
    bad: Dict[str, Any] = {
        "prefetch_poll_interval=0": {"prefetch_poll_interval": 0},
        "prefetch_poll_interval=-1": {"prefetch_poll_interval": -1.0},
        "prefetch_poll_interval=inf": {"prefetch_poll_interval": float("inf")},
        "prefetch_poll_interval=nan": {"prefetch_poll_interval": float("nan")},
        "max_prefetch=-1": {"max_prefetch": -1},
    }
    for label, kwargs in bad.items():
        try:
            Receiver(broker, max_async_tasks=1, run_startup=False, **kwargs)
        except ValueError:
            continue
        problems.append(f"[validation] {label} was accepted")


async def main() -> int:
    problems: List[str] = []
    combos = [(a, p) for a in range(1, 5) for p in range(5)]
    for a, p in combos:
        await saturated(a, p, problems)
    print(f"saturated: {len(combos)} (A, P) combinations done")
    for a, p in ((1, 0), (2, 1), (4, 4)):
        await saturated(a, p, problems, name="idle-then-burst", idle=0.75)
    print("idle-then-burst: done")
    for a, p in combos:
        await churn(a, p, problems)
    print("churn: done")
    for a, p in ((1, 0), (1, 4), (2, 2), (3, 0), (4, 4)):
        await faults(a, p, problems)
    print("faults: done")
    for a, p in ((1, 0), (2, 2), (4, 4)):
        await shutdown_while_saturated(a, p, problems)
    print("shutdown-while-saturated: done")
    for a, p in combos:
        await drip(a, p, problems)
    print("drip: done")
    if HAS_POLL_SWITCH:
        await poll_switch(problems)
        print("prefetch_poll_interval switch: done")
    else:
        print("prefetch_poll_interval switch: not supported by this Receiver, skipped")
    print(
        "Receiver.get_load() snapshots: "
        + ("compared with broker counters" if HAS_GET_LOAD else "not available, skipped"),
    )
    if problems:
        print("C04 VIOLATED / demo expectations failed:")
        for line in problems:
            print("  " + line)
        return 1
    print("C04 holds: never more than A + P + 1 unfinished messages per worker.")
    return 0


if __name__ == "__main__":
    sys.exit(asyncio.run(main()))
