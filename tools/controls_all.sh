#!/bin/sh
# tools/controls_all.sh [jobs] : run all 20 checks against every negative control (controls/*/patch.diff: property-preserving behaviour changes;
# refactors/*/patch.diff: behaviour-preserving refactorings), each applied to its own scratch worktree of /repo (/tmp/wt/ctl<k>, created here and
# removed at the end; /repo itself is never touched). Writes <dir>/result.txt per control and prints a summary. Required: no "FALSE ALARMS" entry.
J=${1:-3}; cd "$(dirname "$0")/.."
for k in $(seq 1 $J); do git -C /repo worktree remove --force /tmp/wt/ctl$k 2>/dev/null; git -C /repo worktree add -q --detach /tmp/wt/ctl$k HEAD; done
ls -d controls/*/ refactors/*/ | awk -v J=$J '{print (NR % J) + 1, $0}' > /tmp/wt/control_jobs.txt
for k in $(seq 1 $J); do
  ( grep "^$k " /tmp/wt/control_jobs.txt | cut -d" " -f2 | while read d; do
      [ -f "$d/patch.diff" ] || continue
      DEVTREE=/tmp/wt/ctl$k python3 tools/refactortest.py "$d/patch.diff" > "$d/result.txt" 2>&1
      echo "$d $(grep 'FALSE ALARMS' "$d/result.txt")"
    done ) &
done
wait
for k in $(seq 1 $J); do git -C /repo worktree remove --force /tmp/wt/ctl$k; done
echo "controls with a false alarm: $(grep -L 'FALSE ALARMS: none' controls/*/result.txt refactors/*/result.txt 2>/dev/null | wc -l)"
echo CONTROLSDONE
