"""Unit `sched_loop`: taskiq/cli/scheduler/run.py::run_scheduler_loop (one iteration of the real loop body), get_schedules, get_all_schedules,
delayed_send — C15.

Per iteration: for every source and every listed schedule, in order: get_task_delay raised ValueError -> nothing spawned, the loop continues;
returned None -> nothing; otherwise exactly one create_task(delayed_send(scheduler, that source, that task, that delay)) ("exactly the due
schedules, once each, in order, with their own delay": ghost inverse map); nothing escapes an iteration; the sleep argument is
(floor(read1 / 60 s) + 1) * 60 s - read2.  get_schedules(source): the source's list, or [] if it raised any Exception.
delayed_send: sleeps `delay` iff delay > 0, then exactly one scheduler.on_ready(source, task).
Lemma L (history, arithmetic over these contracts and the C13/C14 contract of get_task_delay, under timing assumptions A1-A3)."""
import ast, itertools
from z3 import *
from pyvc.core import *

PROPS = ['C15']
REPLAY = {'driver': 'sched', 'parts': ['loop']}
REL = 'taskiq/cli/scheduler/run.py'
TRUSTED = [
    "A1: asyncio.sleep(x) started at t0 returns at some t in [t0 + x, t0 + x + eps], eps < 1 s;  A2: an iteration's own work takes less than 60 s - eps",
    "A3: the local UTC offset does not change between the two naive datetime.now() reads of one iteration",
    "get_task_delay contract (unit u_delay): raises only ValueError (from the cron matcher) or returns None / a delay",
    "asyncio.gather(*aws) awaits each awaitable once and returns the results in argument order; dict(zip(a, b)) pairs positionally",
    "loop.create_task(coro) starts coro as an independent task: its failure does not propagate to the loop (asyncio)",
    "a one-shot entry stays listed by its source until it has fired (LabelScheduleSource.post_send, unit u_label_source)",
]


def generate(src):
    loop_fn = src.func(REL, 'run_scheduler_loop')
    whiles = [s for s in loop_fn.body if isinstance(s, ast.While)]
    if len(whiles) != 1 or ast.unparse(whiles[0].test) != 'True': raise Unsupported("run_scheduler_loop: expected a single `while True` loop")
    while_node = whiles[0]
    NS = Int('n_sources'); I2I = ArraySort(IntSort(), IntSort()); US = 1000000
    ntasks = Function('ntasks', IntSort(), IntSort())                 # number of schedules listed by source s in this poll
    delay = Function('delay', IntSort(), IntSort(), Val)              # get_task_delay outcome for (s, t): none | intv
    raises_ve = Function('raises_ValueError', IntSort(), IntSort(), BoolSort())
    s_, t_, r, r2 = Ints('s_ t_ r r2'); _c = itertools.count()
    def due(s, t): return And(Not(raises_ve(s, t)), delay(s, t) != Val.none)
    def before(s1, t1, s2, t2): return Or(s1 < s2, And(s1 == s2, t1 < t2))
    def Inv(g, si, ti):
        return [g['n'] >= 0,
          ForAll([r], Implies(And(0 <= r, r < g['n']), And(0 <= g['os'][r], g['os'][r] < NS, 0 <= g['ot'][r], g['ot'][r] < ntasks(g['os'][r]), due(g['os'][r], g['ot'][r]), before(g['os'][r], g['ot'][r], si, ti),
                                                        g['od'][r] == delay(g['os'][r], g['ot'][r])))),                         # only due schedules, with their own delay
          ForAll([r, r2], Implies(And(0 <= r, r < r2, r2 < g['n']), before(g['os'][r], g['ot'][r], g['os'][r2], g['ot'][r2]))),    # once each
          ForAll([s_, t_], Implies(And(0 <= s_, s_ < NS, 0 <= t_, t_ < ntasks(s_), due(s_, t_), before(s_, t_, si, ti)),
                                   And(0 <= g['pos'](s_, t_), g['pos'](s_, t_) < g['n'], g['os'][g['pos'](s_, t_)] == s_, g['ot'][g['pos'](s_, t_)] == t_)))]   # every due schedule spawned
    def havoc(st):
        t = next(_c); setG(st, n=Int(f'n{t}'), os=Const(f'os{t}', I2I), ot=Const(f'ot{t}', I2I), od=Const(f'od{t}', ArraySort(IntSort(), Val)), pos=Function(f'pos{t}', IntSort(), IntSort(), IntSort()))
        g_ = st.ghost; nt_ = fresh('t_us', IntSort()); le_ = fresh('t_eval', IntSort()); st.pc += [nt_ >= g_['last_now'], le_ >= g_['last_eval'], le_ <= nt_]; setG(st, last_now=nt_, last_eval=le_)          # time passes inside the loop
    def check(st, cs, label):
        for n_, c in enumerate(cs): oblige(st, f"{label}/{n_}", c)
    def tick(s):          # time passes (listing the sources / evaluating a schedule takes time): a later clock value, remembered as the last evaluation instant
        g = s.ghost; tt = fresh('t_us', IntSort()); s.pc.append(tt >= g['last_now']); setG(s, last_now=tt, last_eval=tt)
    def h_get_all(ex, st, e, recv, args, kw, k, K):
        def eff(s, k2, K2): tick(s); setG(s, listed_at=s.ghost['last_now']); return k2(s, 'SCHEDULES')
        return k(st, Tok(eff))       # contract of get_all_schedules: total, one list per source; awaiting it takes time
    def h_items(ex, st, e, recv, args, kw, k, K): return k(st, 'ITEMS')
    def h_get_task_delay(ex, st, e, recv, args, kw, k, K):
        si, ti = st.env['__si'], st.env['__ti']; extra = list(args[1:]) + list(kw.values())
        oblige(st, "loop/evaluate: get_task_delay is asked about the schedule being iterated" + ("" if extra else ", and about nothing else: it reads the clock itself at that moment (UTC-aware, after the listing: contract A of u_delay)") + "  [C13/C14/C15]",
               BoolVal(len(args) >= 1) if not args else to_val(args[0]) == st.env['__task_v'])
        if extra:         # get_task_delay(task, <instant>): contract (B) of unit u_delay - its precondition is the caller's duty, checked here
            a = extra[0]; g = st.ghost
            if len(extra) > 1 or not (isinstance(a, tuple) and a[0] == 'dt' and len(a) == 3): raise Unsupported("get_task_delay called with " + ast.unparse(e))
            oblige(st, "loop/evaluate: the instant handed to get_task_delay is a UTC-aware read of the clock (a naive local time would be taken for UTC: every schedule shifted by the host's offset)  [C13/C14/C15]",
                   BoolVal(bool(a[2]) and any(a[1].eq(r_) for r_ in g['reads'])))
            oblige(st, "loop/evaluate: a schedule is evaluated against an instant not earlier than the end of the listing that returned it (the delayed send sleeps from now on, not from that instant: a stale instant sends late, and a cron expression is matched against a minute that is already over)  [C13/C14/C15]",
                   a[1] >= g['listed_at'])
            setG(st, last_eval=If(a[1] > g['last_eval'], a[1], g['last_eval']))
        else: tick(st)    # get_task_delay reads the clock itself: the schedule is evaluated against this instant
        ok = st.fork(); ok.pc.append(Not(raises_ve(si, ti)))
        if ex.feasible(ok): k(ok, delay(si, ti))
        f = st.fork(); f.pc.append(raises_ve(si, ti))
        if ex.feasible(f): K['exc'](f, new_exc(f, 'ValueError'))
    def h_delayed_send(ex, st, e, recv, args, kw, k, K):
        return k(st, ('coro_delayed_send', [to_val(a) if not isinstance(a, str) else a for a in args]))
    def h_create_task(ex, st, e, recv, args, kw, k, K):
        kind, a = args[0]; g = st.ghost; si, ti = st.env['__si'], st.env['__ti']
        oblige(st, "loop/spawn: delayed_send(scheduler, this source, this task, its delay)  [C15]", And(a[1] == st.env['__source_v'], a[2] == st.env['__task_v'], a[3] == delay(si, ti)))
        newpos = Function(f'pos_a{next(_c)}', IntSort(), IntSort(), IntSort())
        st.facts.append(ForAll([s_, t_], newpos(s_, t_) == If(And(s_ == si, t_ == ti), g['n'], g['pos'](s_, t_))))
        setG(st, n=g['n'] + 1, os=Store(g['os'], g['n'], si), ot=Store(g['ot'], g['n'], ti), od=Store(g['od'], g['n'], delay(si, ti)), pos=newpos)
        return k(st, PyObj(fresh('task', IntSort())))
    def h_now(ex, st, e, recv, args, kw, k, K):
        tzs = list(args) + list(kw.values()); aware = False
        if (args and kw) or len(tzs) > 1 or any(x != 'tz' for x in kw): raise Unsupported("datetime.now(" + ast.unparse(e) + ")")
        if tzs:
            if isinstance(tzs[0], PyCallable) and tzs[0].name in ('pytz.UTC', 'pytz.utc', 'timezone.utc', 'datetime.timezone.utc', 'UTC'): aware = True
            else: raise Unsupported("datetime.now with a zone other than UTC: " + ast.unparse(e))
        g = st.ghost; t = fresh('now_us', IntSort()); st.pc.append(t >= g['last_now']); setG(st, last_now=t, reads=g['reads'] + [t]); return k(st, ('dt', t, aware))
    def h_replace(ex, st, e, recv, args, kw, k, K):
        assert isinstance(recv, tuple) and {x.arg for x in e.keywords} == {'second', 'microsecond'}
        setG(st, base=recv[1])          # role: the clock value the next minute boundary is derived from
        return k(st, ('dt', (recv[1] / (60 * US)) * (60 * US) + ex.as_int(kw['second']) * US + ex.as_int(kw['microsecond']), recv[2]))
    def h_timedelta(ex, st, e, recv, args, kw, k, K): return k(st, ('td', ex.as_int(kw['minutes']) * 60 * US))
    def h_total_seconds(ex, st, e, recv, args, kw, k, K): return k(st, ('secs', recv[1]))
    def h_sleep(ex, st, e, recv, args, kw, k, K):
        setG(st, slept=args[0][1], sleeps=st.ghost['sleeps'] + 1); return k(st, Tok(lambda s, k2, K2: k2(s, None)))
    class Ex(Exec):
        def ev_BinOp(self, e, st, k, K):
            def got(s, vs):
                l, r_ = vs
                if isinstance(l, tuple) and isinstance(r_, tuple):
                    if isinstance(e.op, ast.Add): return k(s, ('dt', l[1] + r_[1], l[2] if len(l) > 2 else r_[2]))
                    if isinstance(e.op, ast.Sub):
                        if l[0] == 'dt' and r_[0] == 'dt':
                            if l[2] != r_[2]: raise Unsupported("naive - aware datetime subtraction (TypeError at run time): " + ast.unparse(e))
                            setG(s, sub=(l[1], r_[1]))          # role: (boundary, the clock value subtracted from it)
                        return k(s, ('td', l[1] - r_[1]))
                return None
            if any(isinstance(n, ast.Call) and ast.unparse(n.func) in ('datetime.now', 'timedelta') for n in ast.walk(e)) or ast.unparse(e) == 'next_minute - datetime.now()':
                return self.ev_list([e.left, e.right], st, got, K)
            return super().ev_BinOp(e, st, k, K)
        def ev_Attribute(self, e, st, k, K):
            p = ast.unparse(e)
            if p in ('task.cron', 'task.task_name', 'task.schedule_id'): return k(st, fresh(p.replace('.', '_')))
            return super().ev_Attribute(e, st, k, K)
        def find_handler(self, name, recv=None):
            if name.endswith('.replace') and isinstance(recv, tuple): return h_replace
            if name.endswith('.total_seconds'): return h_total_seconds
            return super().find_handler(name, recv)
    def h_for(ex, s, st, k, K):
        itx = ast.unparse(s.iter)
        if itx == 'scheduled_tasks.items()':
            check(st, Inv(st.ghost, IntVal(0), IntVal(0)), "loop/outer/inv-entry")
            it = st.fork(); havoc(it); i = fresh('si', IntSort()); it.pc += [i >= 0, i < NS]; assume(it, Inv(it.ghost, i, IntVal(0)))
            sv = fresh('source'); it.env = dict(it.env); it.env.update(source=sv, task_list=('tasklist', i), __si=i, __source_v=sv)
            ex.block(s.body, it, lambda s3: check(s3, Inv(s3.ghost, i + 1, IntVal(0)), "loop/outer/inv-preserved"), K)
            out = st.fork(); havoc(out); assume(out, Inv(out.ghost, NS, IntVal(0))); return k(out)
        if itx == 'task_list':
            si = st.env['__si']
            it = st.fork(); havoc(it); i = fresh('ti', IntSort()); it.pc += [i >= 0, i < ntasks(si)]; assume(it, Inv(it.ghost, si, i))
            tv = fresh('task'); it.env = dict(it.env); it.env.update(task=tv, __ti=i, __task_v=tv)
            back = lambda s3: check(s3, Inv(s3.ghost, si, i + 1), "loop/inner/inv-preserved")
            K2 = dict(K); K2['cont'] = back
            ex.block(s.body, it, back, K2)
            out = st.fork(); havoc(out); assume(out, Inv(out.ghost, si, ntasks(si))); out.pc.append(ntasks(si) >= 0); return k(out)
        raise Unsupported(itx)
    ex = Ex({'logger.*': noop, 'get_all_schedules': h_get_all, 'scheduled_tasks.items': h_items, 'get_task_delay': h_get_task_delay, 'delayed_send': h_delayed_send, 'loop.create_task': h_create_task,
             'running_schedules.add': noop, 'send_task.add_done_callback': noop, 'len': lambda ex, st, e, recv, a, kw, k, K: k(st, PyInt(fresh('len', IntSort()))),
             'datetime.now': h_now, 'timedelta': h_timedelta, 'asyncio.sleep': h_sleep, '@for': h_for})
    ex.inline_scope = (src, REL, None)
    st = State(); st.env = {'scheduler': fresh('scheduler'), 'loop': fresh('loop'), 'running_schedules': fresh('running')}
    bind_prelude_locals(st.env, loop_fn.body[:loop_fn.body.index(while_node)])          # counters / bookkeeping containers the contract does not name
    st.pc += [NS >= 0]; st.facts.append(ForAll([s_], ntasks(s_) >= 0))
    st.ghost = dict(n=IntVal(0), os=K(IntSort(), IntVal(0)), ot=K(IntSort(), IntVal(0)), od=K(IntSort(), Val.none), pos=Function('pos0', IntSort(), IntSort(), IntSort()), last_now=IntVal(0), last_eval=IntVal(0), listed_at=IntVal(0), base=None, sub=None, reads=[], sleeps=0, slept=None)
    exits = collections.Counter()
    def end_iter(s):
        exits['iteration-end'] += 1; g = s.ghost
        check(s, Inv(g, NS, IntVal(0)), "loop/post: exactly the due schedules are spawned, once each, with their delay  [C15]")
        oblige(s, "loop/post: sleeps exactly once per iteration", BoolVal(g['sleeps'] == 1))
        base, sub = g.get('base'), g.get('sub')
        roles_ok = base is not None and sub is not None and any(base.eq(r_) for r_ in g['reads']) and any(sub[1].eq(r_) for r_ in g['reads'])
        oblige(s, "loop/post: the sleep length is (a minute boundary derived from a clock read) - (a clock read)", BoolVal(roles_ok))
        if not roles_ok: return
        n1, n2 = base, sub[1]
        oblige(s, "loop/post: the subtracted clock read is not earlier than the one the boundary is derived from", n2 >= n1)
        oblige(s, "loop/post: sleep argument == next minute boundary after read 1 − read 2  [C15]", g['slept'] == (n1 / (60 * US)) * (60 * US) + 60 * US - n2)
        oblige(s, "loop/post: the minute boundary is taken from a clock read made AFTER the sources were listed and every schedule of this poll was evaluated (so the next poll starts in a later minute than any evaluation of this one - no second poll within the same minute)  [C15]",
               n1 >= g['last_eval'])
    def on_exc(s, x): exits['iteration-raise'] += 1; oblige(s, "loop/raises: nothing escapes an iteration (fault isolation)  [C15]", BoolVal(False))
    ex.block(while_node.body, st, end_iter, {'exc': on_exc, 'ret': lambda s, v: None})
    src.note_paths('::run_scheduler_loop', sum(exits.values()))
    s0 = State(); s0.pc = [NS >= 0]; reach(s0, "loop/reach@iteration")

    # ---------------- get_schedules(source): the source's list, or [] if it raised any Exception; never raises  [C15]
    GS = src.func(REL, 'get_schedules'); ge = collections.Counter()
    def h_src_get(ex_, st_, e, recv, args, kw, k, K):
        def eff(s2, k2, K2):
            setG(s2, calls=s2.ghost['calls'] + 1)
            ok = s2.fork(); k2(ok, s2.ghost['listing'])
            f = s2.fork(); setG(f, failed=BoolVal(True)); K2['exc'](f, raise_any(f, 'Exception'))
        return k(st_, Tok(eff))
    class ExG(Exec):
        def ev_List(self, e, st_, k, K):
            if e.elts: raise Unsupported("list display with elements")
            return k(st_, 'EMPTY_LIST')
    exg = ExG({'logger.*': noop, 'source.get_schedules': h_src_get})
    sg = State(); sg.env = {'source': fresh('source')}; sg.ghost = dict(calls=IntVal(0), failed=BoolVal(False), listing=fresh('listing'))
    def g_ret(s2, v):
        ge['return'] += 1; g = s2.ghost
        empty = isinstance(v, str) and v == 'EMPTY_LIST'
        oblige(s2, "get_schedules/post: one listing call; its result is returned, or an empty list if the source raised  [C15]",
               And(g['calls'] == 1, g['failed'] if empty else And(Not(g['failed']), to_val(v) == g['listing'])))
        reach(s2, f"get_schedules/reach@return#{ge['return']}")
    exg.run(GS, sg, g_ret, lambda s2, x: oblige(s2, "get_schedules/raises: a failing source never propagates an Exception  [C15]", BoolVal(False)))
    # ---------------- get_all_schedules: one get_schedules(source) per source, results paired positionally  [C15]
    GA = src.func(REL, 'get_all_schedules')
    class ExA(Exec):
        def ev_ListComp(self, e, st_, k, K):
            if len(e.generators) != 1 or e.generators[0].ifs or not isinstance(e.generators[0].target, ast.Name): raise Unsupported("list comprehension shape")
            g0 = e.generators[0]
            return k(st_, ('mapped', ast.unparse(e.elt), g0.target.id, ast.unparse(g0.iter)))
    def h_gather(ex_, st_, e, recv, args, kw, k, K):
        if kw or len(args) != 1 or not (isinstance(args[0], tuple) and args[0][0] == 'mapped') or not isinstance(e.args[0], ast.Starred): raise Unsupported("asyncio.gather call shape (keywords such as return_exceptions change its contract)")
        return k(st_, Tok(lambda s2, k2, K2: k2(s2, ('gathered',) + args[0][1:])))
    def h_zip(ex_, st_, e, recv, args, kw, k, K): return k(st_, ('zip', [ast.unparse(a) for a in e.args], args))
    def h_dict(ex_, st_, e, recv, args, kw, k, K): return k(st_, ('dict', args[0]))
    exa = ExA({'logger.*': noop, 'asyncio.gather': h_gather, 'zip': h_zip, 'dict': h_dict})
    exa.ev_Attribute = lambda e, st_, k, K: k(st_, ('attr', ast.unparse(e)))
    sa = State(); sa.env = {'scheduler': fresh('scheduler')}
    def a_ret(s2, v):
        ok = (isinstance(v, tuple) and v[0] == 'dict' and isinstance(v[1], tuple) and v[1][0] == 'zip' and len(v[1][2]) == 2 and v[1][2][0] == ('attr', 'scheduler.sources')
              and isinstance(v[1][2][1], tuple) and v[1][2][1][0] == 'gathered' and v[1][2][1][1] == f"get_schedules({v[1][2][1][2]})" and v[1][2][1][3] == 'scheduler.sources')
        oblige(s2, "get_all_schedules/post: maps every source, in order, to the result of its own get_schedules(source) call (one call per source)  [C15]", BoolVal(ok))
        reach(s2, "get_all_schedules/reach@return")
    exa.run(GA, sa, a_ret, lambda s2, x: oblige(s2, "get_all_schedules/raises: nothing  [C15]", BoolVal(False)))
    # ---------------- delayed_send: sleep iff delay > 0, then exactly one on_ready(source, task)  [C15]
    DS = src.func(REL, 'delayed_send'); d = Int('delay')
    def h_sleep2(ex_, st_, e, recv, args, kw, k, K):
        def eff(s2, k2, K2):
            oblige(s2, "delayed_send/sleep: waits exactly the computed delay, before sending  [C15]", And(ex_.as_int(args[0]) == d, s2.ghost['ready'] == 0, s2.ghost['sleeps'] == 0))
            setG(s2, sleeps=s2.ghost['sleeps'] + 1); return k2(s2, None)
        return k(st_, Tok(eff))
    def h_on_ready(ex_, st_, e, recv, args, kw, k, K):
        def eff(s2, k2, K2):
            oblige(s2, "delayed_send/on_ready: called once with this source and this task  [C15]", And(s2.ghost['ready'] == 0, to_val(args[0]) == to_val(s2.env['source']), to_val(args[1]) == to_val(s2.env['task'])))
            setG(s2, ready=s2.ghost['ready'] + 1)
            ok = s2.fork(); k2(ok, None)
            f = s2.fork(); K2['exc'](f, raise_any(f, 'Exception'))
        return k(st_, Tok(eff))
    exd = Exec({'logger.*': noop, 'asyncio.sleep': h_sleep2, 'scheduler.on_ready': h_on_ready})
    exd.ev_Attribute = lambda e, st_, k, K: k(st_, fresh('attr'))
    sd = State(); sd.env = {'scheduler': fresh('scheduler'), 'source': fresh('source'), 'task': fresh('task'), 'delay': PyInt(d)}; sd.ghost = dict(sleeps=IntVal(0), ready=IntVal(0))
    dn = collections.Counter()
    def d_ret(s2, v):
        dn['r'] += 1
        oblige(s2, "delayed_send/post: slept iff delay > 0, then sent exactly once  [C15]", And(s2.ghost['sleeps'] == If(d > 0, 1, 0), s2.ghost['ready'] == 1)); reach(s2, f"delayed_send/reach@return#{dn['r']}")
    exd.run(DS, sd, d_ret, lambda s2, x: oblige(s2, "delayed_send/raises: only what on_ready raises (the failure stays in this schedule's own task)  [C15]", s2.ghost['ready'] == 1))

    # ---------------- Lemma L: history properties, arithmetic over the contracts (integer microseconds)
    p0, p1, T, dly, eps = Ints('poll_k poll_k1 T delay_k eps'); MIN = 60 * US
    b1 = (p0 / MIN) * MIN + MIN                                  # next minute boundary after poll k
    H0 = (p0 / MIN) * MIN + MIN + US; H1 = (p1 / MIN) * MIN + MIN + US
    timing = [p0 >= 0, eps >= 0, eps < US, p1 >= b1, p1 <= b1 + eps]        # A1/A2: the next poll starts within eps after the boundary
    L = State(); L.pc = list(timing)
    oblige(L, "lemma L/minutes: consecutive polls fall in consecutive minutes (every minute is polled exactly once)  [C15]", p1 / MIN == p0 / MIN + 1,
           witness={'poll_k_us': p0, 'poll_k1_us': p1})
    reach(L, "lemma L/reach@timing")
    # one-shot spawned at poll k by the C14 contract: either T <= p0 (d = 0) or p0 < T <= H0 with T <= p0 + d*1s < T + 1s
    spawned_k = Or(And(T <= p0, dly == 0), And(p0 < T, T <= H0, T <= p0 + dly * US, p0 + dly * US < T + US))
    L2 = State(); L2.pc = timing + [spawned_k]
    fire = p0 + dly * US
    oblige(L2, "lemma L/one-shot: sent not before its time and within one second after it (or at once if already past)  [C15]", And(Implies(p0 < T, And(fire >= T, fire < T + US)), Implies(T <= p0, fire == p0)))
    still_listed = fire >= p1            # the entry is removed only when it has fired (post_send); a send at the very instant of the poll may still be listed
    due_k1 = Or(T <= p1, T <= H1)
    oblige(L2, "lemma L/one-shot: a schedule spawned by one poll is not spawned again by the next poll (sent exactly once)  [C15]", Not(And(still_listed, due_k1)),
           witness={'poll_k_us': p0, 'poll_k1_us': p1, 'T_us': T, 'delay_s': dly, 'fires_at_us': fire})
    L3 = State(); L3.pc = timing + [T > H0, T > p0]
    oblige(L3, "lemma L/one-shot: a schedule left for a later poll is still in the future at that poll (never sent late because it was skipped)  [C15]", T > p1)
    return {'exits': dict(exits)}
