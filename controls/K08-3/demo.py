"""
Demo for the parse_params memoisation (property C08: arguments reach the task
function unchanged / converted to the annotated type, bound to the right parameter).

Run as:  PYTHONPATH=<tree> /venv/bin/python demo.py
Exits 0 on both the unchanged and the changed tree.

Every history is checked against `oracle`, a literal copy of the original
(un-memoised) loop that reads the signature and the hints live.
"""
import asyncio
import copy
import dataclasses
import gc
import inspect
import logging
import sys
import threading
from typing import Any, Dict, List, Optional, get_type_hints

import pydantic

import taskiq
from taskiq import InMemoryBroker
from taskiq.compat import parse_obj_as
from taskiq.message import TaskiqMessage
from taskiq.receiver import params_parser
from taskiq.receiver.params_parser import parse_params

logging.disable(logging.CRITICAL)  # the library logs every unconvertible value
CHECKS = 0


def check(cond: bool, what: str) -> None:
    global CHECKS
    CHECKS += 1
    if not cond:
        print("FAILED:", what)
        sys.exit(1)


def oracle(signature, type_hints, message) -> None:
    """The original parse_params body (minus logging)."""
    if signature is None:
        return
    for argnum, param_name in enumerate(signature.parameters):
        annot = type_hints.get(param_name)
        if annot is None:
            continue
        if argnum < len(message.args):
            value = message.args[argnum]
            if value is None:
                continue
            try:
                message.args[argnum] = parse_obj_as(annot, value)
            except (ValueError, RuntimeError):
                pass
        else:
            value = message.kwargs.get(param_name)
            if value is None:
                continue
            try:
                message.kwargs[param_name] = parse_obj_as(annot, value)
            except (ValueError, RuntimeError):
                pass


def conv(annot: Any, value: Any) -> Any:
    """Converted to the annotated type when convertible, otherwise unchanged."""
    try:
        return parse_obj_as(annot, value)
    except (ValueError, RuntimeError):
        return value


def msg(*args: Any, **kwargs: Any) -> TaskiqMessage:
    return TaskiqMessage(
        task_id="id", task_name="t", labels={}, args=list(args), kwargs=kwargs,
    )


def typed(values: List[Any]) -> List[Any]:
    return [(type(v).__name__, v) for v in values]


def same(signature, hints, message: TaskiqMessage, what: str) -> TaskiqMessage:
    """Run the library and the oracle on copies and compare (values and types)."""
    got, want = copy.deepcopy(message), copy.deepcopy(message)
    parse_params(signature, hints, got)
    oracle(signature, hints, want)
    check(
        typed(got.args) == typed(want.args)
        and list(got.kwargs) == list(want.kwargs)
        and typed(list(got.kwargs.values())) == typed(list(want.kwargs.values())),
        f"{what}: got {got.args} {got.kwargs}, want {want.args} {want.kwargs}",
    )
    return got


class Model(pydantic.BaseModel):
    x: int


@dataclasses.dataclass
class Data:
    y: int


def f(a: int, b, c: str = "z", *, d: Model = None, e: Any = None, g: Data = None):
    ...


MESSAGES = [
    msg("11", "22", 33, d={"x": "4"}, e={"x": "4"}, g={"y": 5}),
    msg("nope", None, None, d="bad", g=None),
    msg(a="7", b="8", c=9, d={"x": 1}),
    msg("1"),
    msg(),
    msg(1, 2, 3, 4, 5, 6, 7),
    msg(None, b=[1, {"k": None}], c="s"),
]


def h1_repeated() -> None:
    sig, hints = inspect.signature(f), get_type_hints(f)
    for rnd in range(3):
        for i, m in enumerate(MESSAGES):
            same(sig, hints, m, f"repeated round {rnd} message {i}")
    got = same(sig, hints, MESSAGES[0], "direct")
    check(got.args == [11, "22", conv(str, 33)], "positional conversion")
    check(got.kwargs["d"] == Model(x=4) and got.kwargs["e"] == {"x": "4"}, "kw model / Any")
    check(got.kwargs["g"] == Data(y=5), "kw dataclass")
    got = same(sig, hints, MESSAGES[1], "direct unconvertible")
    check(got.args == ["nope", None, None] and got.kwargs["d"] == "bad", "unconvertible unchanged")
    print("h1  repeated calls on one (signature, hints): same as live loop;",
          "'11'->11, dict->Model/dataclass, 'nope' unchanged")


def make(ann_value: Any):
    """Functions whose signatures are EQUAL (string annotation) but hints differ."""
    ns: Dict[str, Any] = {"T": ann_value}
    exec("def task(a: 'T', b=None):\n    ...", ns)  # noqa: S102
    return ns["task"]


def h2_equal_signatures() -> None:
    ti, ts, tl = make(int), make(str), make(List[int])
    sigs = [inspect.signature(t) for t in (ti, ts, tl)]
    hints = [get_type_hints(t) for t in (ti, ts, tl)]
    check(sigs[0] == sigs[1] == sigs[2] and hash(sigs[0]) == hash(sigs[1]), "signatures equal")
    for rnd in range(3):
        for k in (0, 1, 2, 1, 0):
            for m in (msg("5"), msg(5), msg(a="5"), msg(["1", 2]), msg(a=("3",))):
                same(sigs[k], hints[k], m, f"equal signatures task {k} round {rnd}")
    # one signature object used with another task's hints and back (same names).
    for k in (1, 0, 2, 0):
        got = same(sigs[0], hints[k], msg("5"), f"one signature, hints of task {k}")
    check(got.args == [5], "back to int hints")
    # an equal copy of the hints dict (other identity), also an empty fresh one.
    same(sigs[0], dict(hints[1]), msg(5), "equal-signature, copied hints")
    for _ in range(3):
        same(sigs[0], {}, msg("5"), "fresh empty hints (what the receiver passes)")
    print("h2  three tasks with equal signatures / different hints, interleaved,",
          "and one signature with swapped hints dicts: each call uses ITS hints")


def h3_mutated_hints() -> None:
    sig, hints = inspect.signature(f), get_type_hints(f)
    m = msg("11", "22", "33", d={"x": "4"}, e="9")
    same(sig, hints, m, "before edits")
    hints["a"] = str  # changed annotation
    got = same(sig, hints, m, "a: int -> str")
    check(got.args[0] == "11", "a now stays str")
    hints["b"] = int  # annotation added to an un-annotated parameter
    got = same(sig, hints, m, "b annotated")
    check(got.args[1] == 22, "b now converted")
    del hints["c"]  # annotation removed
    same(sig, hints, msg(1, 2, 3), "c un-annotated")
    hints["e"] = int  # Any -> int
    got = same(sig, hints, m, "e: Any -> int")
    check(got.kwargs["e"] == 9, "e now converted")
    hints["a"], hints["b"] = hints["b"], hints["a"]  # same values, other keys
    got = same(sig, hints, m, "annotations swapped between parameters")
    check(got.args[:2] == [11, "22"], "swap seen")
    hints["zzz"] = int  # key that is no parameter
    same(sig, hints, m, "unrelated key")
    hints["d"] = Optional[Model]
    same(sig, hints, m, "d: Optional[Model]")
    hints.clear()
    got = same(sig, hints, m, "hints cleared")
    check(got.args == ["11", "22", "33"], "nothing converted after clear")
    hints.update(get_type_hints(f))
    got = same(sig, hints, m, "hints restored")
    check(got.args[0] == 11, "converted again")
    print("h3  hints dict edited in place between calls (change, add, delete, swap,",
          "clear, restore): every call follows the dict as it is at that call")


def h4_recycled_ids() -> None:
    seen: Dict[int, Any] = {}
    recycled = 0
    for n in range(3000):
        t = make((int, str, float, List[int])[n % 4])
        sig, hints = inspect.signature(t), get_type_hints(t)
        key = id(sig)
        if key in seen and seen[key] != n % 4:
            recycled += 1
        seen[key] = n % 4
        same(sig, hints, msg("5"), f"fresh signature {n}")
        same(sig, hints, msg(a="6"), f"fresh signature {n} kw")
        del t, sig, hints
        if n % 50 == 0:
            gc.collect()
    # short-lived signatures with DIFFERENT parameter orders used with one shared
    # hints dict: only the signature tells the entries apart.
    shared = {"a": int}
    orders = ("a, b", "b, a", "b, c, a", "x, a")
    reused, ids = 0, {}
    for n in range(3000):
        ns: Dict[str, Any] = {}
        exec(f"def task({orders[n % 4]}):\n    ...", ns)  # noqa: S102
        sig = inspect.signature(ns["task"])
        reused += ids.get(id(sig), n % 4) != n % 4
        ids[id(sig)] = n % 4
        got = same(sig, shared, msg("1", "2", "3"), f"shared hints, order {orders[n % 4]}")
        where = [i for i, v in enumerate(got.args) if isinstance(v, int)]
        check(where == [orders[n % 4].split(", ").index("a")], "only a's position converted")
        del ns, sig
    recycled += reused
    # more distinct live signatures than any cache bound, visited twice.
    live = [make((int, str)[n % 2]) for n in range(1500)]
    pairs = [(inspect.signature(t), get_type_hints(t)) for t in live]
    for rnd in range(2):
        for n, (sig, hints) in enumerate(pairs):
            got = same(sig, hints, msg("5"), f"live signature {n} round {rnd}")
            check(got.args == [5] if n % 2 == 0 else got.args == ["5"], "right hints")
    print(f"h4  6000 short-lived signatures ({recycled} reused an id of another shape)",
          "and 1500 live ones visited twice: no stale entry ever used")


class OddHints(dict):
    """Mapping whose get() is not a plain lookup."""

    def get(self, key, default=None):
        return str if key == "a" else default


def h5_odd_inputs() -> None:
    sig = inspect.signature(f)
    same(sig, OddHints(), msg(5, 6), "dict subclass with own get()")
    same(sig, OddHints(a=int), msg(5, 6), "dict subclass with own get(), again")
    m = msg("1")
    parse_params(None, get_type_hints(f), m)
    check(m.args == ["1"], "signature None (parsing disabled) leaves the message alone")
    print("h5  dict-subclass hints and signature=None (parsing disabled): unchanged behaviour")


def h6_threads() -> None:
    tasks = [make(t) for t in (int, str, float)] * 4
    pairs = [(inspect.signature(t), get_type_hints(t)) for t in tasks]
    errors: List[str] = []

    def worker(seed: int) -> None:
        for n in range(400):
            sig, hints = pairs[(seed + n) % len(pairs)]
            got, want = msg("5", a2=1), msg("5", a2=1)
            parse_params(sig, hints, got)
            oracle(sig, hints, want)
            if typed(got.args) != typed(want.args):
                errors.append(f"{got.args} != {want.args}")

    threads = [threading.Thread(target=worker, args=(s,)) for s in range(8)]
    for t in threads:
        t.start()
    for t in threads:
        t.join()
    check(not errors, f"threads: {errors[:3]}")
    print("h6  8 threads x 400 calls over 12 equal-signature tasks: all as the live loop")


async def h7_end_to_end() -> None:
    for cast in (True, False):
        broker = InMemoryBroker(cast_types=cast)

        @broker.task(task_name="one")
        async def one(a: int, b, c: str = "z", *, d: Model = None, e: Any = None):
            return [typed([a, b, c, e]), repr(d)]

        @broker.task(task_name="two")
        def two(a: str, b: int = 0, c=None):
            return typed([a, b, c])

        await broker.startup()

        async def call(task, *a, **kw):
            return (await (await task.kiq(*a, **kw)).wait_result(timeout=5)).return_value

        calls = [
            (one, ("11", "22", 33), {"d": Model(x=4), "e": Data(y=5)}),
            (two, (11,), {"c": "x", "b": "7"}),
            (one, ("bad", None), {}),
            (two, (), {"a": 1, "b": "oops"}),
        ] * 5
        res = await asyncio.gather(*[call(t, *a, **kw) for t, a, kw in calls])
        for (t, a, kw), r in zip(calls, res):
            if t is one:
                bound = inspect.signature(one.original_func).bind(*a, **kw)
                bound.apply_defaults()
                sent = bound.arguments
                if cast:
                    exp_a = conv(int, sent["a"])
                    exp_c = conv(str, sent["c"])
                    exp_d = repr(sent["d"])
                else:
                    exp_a, exp_c = sent["a"], sent["c"]
                    exp_d = repr({"x": 4}) if sent["d"] is not None else "None"
                exp_e = {"y": 5} if sent["e"] is not None else None
                check(r == [typed([exp_a, sent["b"], exp_c, exp_e]), exp_d], f"one{a}{kw} cast={cast}: {r}")
            else:
                bound = inspect.signature(two.original_func).bind(*a, **kw)
                bound.apply_defaults()
                sent = bound.arguments
                exp_a = conv(str, sent["a"]) if cast else sent["a"]
                exp_b = conv(int, sent["b"]) if cast else sent["b"]
                check(r == typed([exp_a, exp_b, sent["c"]]), f"two{a}{kw} cast={cast}: {r}")
        if cast:
            # the receiver's per-task state edited between messages.
            broker.receiver.task_hints["two"]["a"] = int
            check(await call(two, "12") == typed([12, 0, None]), "edited hints are followed")
            broker.receiver.task_hints["two"] = {"b": float}
            check(await call(two, "12", "3") == typed(["12", 3.0, None]), "replaced hints dict is followed")
            broker.receiver.task_signatures["two"] = broker.receiver.task_signatures["one"]
            broker.receiver.task_hints["two"] = {"c": int, "a": float}
            check(await call(two, "12", "3", "4") == typed([12.0, "3", 4]), "replaced signature is followed")
        await broker.shutdown()
    print("h7  InMemoryBroker end to end, 20 concurrent messages over two tasks, with and",
          "without parsing; receiver.task_hints / task_signatures edited between messages")


def h8_round_trip() -> None:
    broker = InMemoryBroker()
    m = TaskiqMessage(task_id="i", task_name="n", labels={"l": 1}, labels_types=None,
                      args=[1, "a", None, [1.5, {"k": [True]}]], kwargs={"x": {"y": None}})
    back = broker.formatter.loads(broker.formatter.dumps(m).message)
    check(back == m, "JSON formatter round trip")
    print("h8  JSONFormatter dumps/loads gives an equal message (untouched by the change)")


if __name__ == "__main__":
    print("taskiq from", taskiq.__file__,
          "| memoised:", hasattr(params_parser, "_get_plan"))
    h1_repeated()
    h2_equal_signatures()
    h3_mutated_hints()
    h4_recycled_ids()
    h5_odd_inputs()
    h6_threads()
    asyncio.run(h7_end_to_end())
    h8_round_trip()
    print(f"OK: {CHECKS} checks passed")
