"""Bounded supplement for C13 (a sanity check of the ASSUMED contracts of pycron / pytz, never counted as proved): the REAL get_task_delay, no stub,
minute-exhaustive over DST-transition days, against an independent matcher for the numeric five-field grammar (lists, ranges, steps) applied to
the wall clock computed independently (zoneinfo instead of pytz).  Run with /venv/bin/python."""
import sys, json, datetime as _dt, logging
logging.disable(logging.CRITICAL)

def field_matches(expr, value, lo, hi):
    for part in expr.split(','):
        step = 1
        if '/' in part: part, s = part.split('/'); step = int(s)
        if part == '*': a, b = lo, hi
        elif '-' in part: a, b = map(int, part.split('-'))
        else: a = b = int(part)
        if '/' in expr and part != '*' and '-' not in part: b = hi            # "5/15" style: from 5 every 15
        if a <= value <= b and (value - a) % step == 0: return True
    return False

def cron_matches(expr, wall):
    mi, ho, dom, mon, dow = expr.split()
    wd = (wall.weekday() + 1) % 7                 # cron: 0 = Sunday
    return (field_matches(mi, wall.minute, 0, 59) and field_matches(ho, wall.hour, 0, 23) and field_matches(dom, wall.day, 1, 31)
            and field_matches(mon, wall.month, 1, 12) and field_matches(dow, wd, 0, 6))

def run(sc):
    import zoneinfo, pytz
    import taskiq.cli.scheduler.run as run_mod
    from taskiq.scheduler.scheduled_task import ScheduledTask
    cur = {}
    class FrozenDT(_dt.datetime):
        @classmethod
        def now(cls, tz=None): return cur['now'].astimezone(tz) if tz is not None else cur['now'].replace(tzinfo=None)
    run_mod.datetime = FrozenDT
    days = [_dt.date(2026, 3, 29), _dt.date(2026, 10, 25), _dt.date(2026, 3, 8), _dt.date(2026, 11, 1), _dt.date(2026, 4, 5), _dt.date(2026, 6, 17)]
    if sc.get('tier') != 'thorough': days = days[:2]
    exprs = ['* * * * *', '*/5 * * * *', '0 2 * * *', '30 1-3 * * *', '15,45 */6 * * *', '0 0 29 3 *', '7 3 * * 0', '59 23 * 10-11 *']
    offsets = [None, _dt.timedelta(hours=2), _dt.timedelta(hours=-26, minutes=1), 'Europe/Berlin', 'America/New_York', 'Asia/Kathmandu', 'Australia/Lord_Howe']
    TASKS = {(ex, str(off)): ScheduledTask(task_name='t', labels={}, args=[], kwargs={}, cron=ex, cron_offset=off, time=None, schedule_id='s') for ex in exprs for off in offsets}          # built through the model's validators, as every schedule source does
    fails = []; n = 0
    for day in days:
        base = _dt.datetime(day.year, day.month, day.day, tzinfo=_dt.timezone.utc) - _dt.timedelta(hours=6)
        for minute in range(0, 36 * 60):
            for sec in ((0,) if minute % 7 else (0, 37.250001)):
                now = base + _dt.timedelta(minutes=minute, seconds=sec); cur['now'] = now
                for off in offsets:
                    if off is None: wall = now
                    elif isinstance(off, _dt.timedelta): wall = now + off
                    else: wall = now.astimezone(zoneinfo.ZoneInfo(off))
                    for ex in exprs:
                        n += 1
                        task = TASKS[(ex, str(off))]
                        got = run_mod.get_task_delay(task); want = 0 if cron_matches(ex, wall) else None
                        if got != want and len(fails) < 40:
                            fails.append({'key': f"{ex} @ {now.isoformat()} offset={off}", 'failed_clauses': [f"C13: cron {ex!r} at {now.isoformat()} with offset {off!r} (wall clock {wall.isoformat()}): get_task_delay -> {got!r}, expected {want!r}"]})
    return {'reproduced': bool(fails), 'runs': n, 'n_failures': len(fails), 'failures': fails[:400]}

if __name__ == '__main__':
    sc = json.load(open(sys.argv[1])) if len(sys.argv) > 1 else {}
    print(json.dumps(run(sc.get('scenario', sc)), default=str))
