"""
Stand-alone check of the process manager's "one live worker per slot" property.

Run as:  PYTHONPATH=<tree> /venv/bin/python demo.py

The real ProcessManager.start loop is driven with fake processes, a fake
queue and a scripted sleep(), so no real process is ever created or signalled.
Every history checks:
  S  the number of slots never changes,
  L  a process for a slot is started only when every earlier process of that
     slot is dead, was terminate()d and join()ed (never two live per slot),
  Q  after every supervision tick there is exactly one queued
     ReloadOneAction(slot, is_reload_all=False) per dead slot,
  T  a worker seen dead in tick k is no longer in its slot at tick k+2
     (unless the manager returned: shutdown / failure budget),
  R  the expected return value of start().
"""

import collections
import logging
import sys
import types

import taskiq
import taskiq.cli.worker.process_manager as pm
from taskiq.cli.worker.args import WorkerArgs

print("taskiq from", taskiq.__file__)


class Stop(BaseException):
    """Ends a history from inside sleep()."""


class World:
    def __init__(self) -> None:
        self.procs = []  # every fake process ever created, in order
        self.kills = []  # os.kill calls
        self.born_dead = set()  # slots whose next processes die at once
        self.same_pid = False  # recycle one pid for every process


W = World()


class FakeProcess:
    def __init__(self, target=None, kwargs=None, name="", daemon=False):
        self.name = name
        self.pid = None
        self.exitcode = None
        self._alive = False
        self.started = False
        self.terminated = False
        self.joined = False
        W.procs.append(self)

    def start(self):
        # L: every earlier process of this slot is gone and was waited for.
        for old in W.procs:
            if old is self or old.name != self.name:
                continue
            assert not old._alive, f"two live processes for {self.name}"
            assert old.terminated and old.joined, f"{self.name}: old not waited"
        self.started = True
        self.pid = 4242 if W.same_pid else 1000 + len(W.procs)
        slot = int(self.name.split("-")[1])
        self._alive = slot not in W.born_dead
        if not self._alive:
            self.exitcode = 1

    def is_alive(self):
        return self._alive

    def terminate(self):
        self.terminated = True
        if self._alive:
            self._alive = False
            self.exitcode = -15

    def join(self):
        assert not self._alive
        self.joined = True

    def die(self, code=1):
        self._alive = False
        self.exitcode = code


class FakeEvent:
    def wait(self, timeout=None):
        return True


class FakeQueue:
    """FIFO with optional one-shot lag: empty() lies once (feeder-thread lag)."""

    def __init__(self, *_a):
        self.items = collections.deque()
        self.lag = 0

    def put(self, item):
        self.items.append(item)

    def get(self):
        return self.items.popleft()

    def empty(self):
        if self.lag and self.items:
            self.lag -= 1
            return True
        return not self.items


class DeathLog(logging.Handler):
    def __init__(self):
        super().__init__()
        self.lines = []

    def emit(self, record):
        msg = record.getMessage()
        if "dead" in msg:
            self.lines.append(msg)


def run(title, workers, script, ticks, max_fails=-1, expect=Stop, check_t=True):
    """Run one history. script: {tick: [callable(manager)]}."""
    global W
    W = World()
    death_log = DeathLog()
    pm.logger.addHandler(death_log)
    pm.logger.setLevel(logging.DEBUG)
    pm.logger.propagate = False
    state = {"tick": 0, "seen_dead": {}}  # tick -> [(slot, proc)]
    manager = pm.ProcessManager(
        WorkerArgs(broker="b:b", modules=[], workers=workers, max_fails=max_fails),
        worker_function=lambda args: None,
    )

    def after_tick_checks():
        # runs at the start of sleep(), i.e. right after the previous tick
        assert len(manager.workers) == workers, "S: slot count changed"
        live = [p for p in W.procs if p._alive]
        assert len({p.name for p in live}) == len(live), "L: two live in a slot"
        assert {p.name for p in live} <= {f"worker-{i}" for i in range(workers)}
        if state["tick"] >= 1:
            dead = [i for i, p in enumerate(manager.workers) if not p._alive]
            queued = [
                a.worker_num
                for a in manager.action_queue.items
                if isinstance(a, pm.ReloadOneAction) and not a.is_reload_all
            ]
            pending = state.get("pending", [])
            assert sorted(queued) == sorted(pending + dead), (
                f"Q: dead {dead} + undelivered {pending} but queued {queued}"
            )
            state["pending"] = []
            state["seen_dead"][state["tick"]] = [
                (i, manager.workers[i]) for i in dead
            ]
        if check_t:
            for slot, proc in state["seen_dead"].get(state["tick"] - 1, []):
                assert manager.workers[slot] is not proc, "T: not replaced in 2 ticks"

    def fake_sleep(_seconds):
        after_tick_checks()
        state["tick"] += 1
        if state["tick"] > ticks:
            raise Stop
        for event in script.get(state["tick"], []):
            event(manager)
        # what is queued but will not be delivered in this tick (lag)
        if manager.action_queue.lag:
            state["pending"] = [
                a.worker_num
                for a in manager.action_queue.items
                if isinstance(a, pm.ReloadOneAction) and not a.is_reload_all
            ]

    pm.sleep = fake_sleep
    try:
        result = manager.start()
    except Stop:
        result = Stop
    finally:
        pm.logger.removeHandler(death_log)
    assert result == expect or result is expect, f"R: got {result!r}"
    assert len(manager.workers) == workers, "S: slot count changed"
    live = [p for p in W.procs if p._alive]
    assert len({p.name for p in live}) == len(live), "L: two live in a slot"
    deaths = sum(len(v) for v in state["seen_dead"].values())
    assert deaths == 0 or death_log.lines, "a death was never logged"
    print(
        f"ok  {title}: slots={workers} processes_created={len(W.procs)} "
        f"dead_sightings={deaths} death_log_lines={len(death_log.lines)} "
        f"result={'ran to end' if result is Stop else result}",
    )
    return manager, death_log.lines


def kill(slot, code=1):
    return lambda m: m.workers[slot].die(code)


def post(action_factory):
    return lambda m: m.action_queue.put(action_factory())


def file_change(m):
    pm.schedule_workers_reload(m.action_queue)  # what FileWatcher calls


def sighup(m):
    pm.get_signal_handler(m.action_queue, pm.ReloadAllAction())(1, None)


def sigterm(m):
    pm.get_signal_handler(m.action_queue, pm.ShutdownAction())(15, None)


def lag(m):
    m.action_queue.lag = 1


def born_dead(slot, on=True):
    def _ev(_m):
        (W.born_dead.add if on else W.born_dead.discard)(slot)

    return _ev


def recycle_pids(_m):
    W.same_pid = True


# --- patch the module: nothing real is spawned, signalled or slept on -------
pm.Process = FakeProcess
pm.Event = FakeEvent
pm.Queue = FakeQueue
pm.os = types.SimpleNamespace(kill=lambda pid, sig: W.kills.append((pid, sig)))
pm.signal = types.SimpleNamespace(
    signal=lambda *_a: None, SIGINT=2, SIGTERM=15, SIGHUP=1,
)

# 1. one death, replaced in the next tick
run("single death", 2, {2: [kill(0)]}, ticks=5)

# 2. the same slot dies again and again; every replacement reuses the SAME
#    name and the SAME pid (recycled ids): each one must still be replaced
m, lines = run(
    "same slot dies repeatedly, pid and name recycled",
    2,
    {1: [recycle_pids], 2: [kill(1)], 4: [kill(1)], 6: [kill(1)], 8: [kill(1, -9)]},
    ticks=11,
)
assert len([p for p in W.procs if p.name == "worker-1"]) == 5

# 3. all workers die in the same tick
run("all slots die at once", 3, {2: [kill(0), kill(1), kill(2)]}, ticks=5)

# 4. death + file change + SIGHUP in the same tick (concurrent messages)
run(
    "death together with file-change and SIGHUP reload-all",
    3,
    {2: [kill(1), file_change, sighup], 3: [file_change], 4: [kill(1), kill(2)]},
    ticks=8,
)

# 5. reload-all arrives AFTER the death was already queued (state changed
#    between ticks: the slot is replaced twice-requested, handled once)
run(
    "death queued, then reload-all before it is handled",
    2,
    {2: [kill(0)], 3: [sighup, kill(1)]},
    ticks=7,
)

# 6. the restart request is delivered late (queue lag): the SAME dead object
#    is seen in two ticks; a restart is still queued both times and the slot
#    is replaced once it is delivered.  (T is an environment matter here.)
m, lines = run(
    "same dead object seen twice (queue lag)",
    2,
    {2: [kill(0)], 3: [lag]},
    ticks=7,
    check_t=False,
)
assert all(p._alive for p in m.workers)

# 7. replacements are dead on arrival (crash loop), then recover
run(
    "crash loop then recovery",
    2,
    {2: [born_dead(0), kill(0)], 6: [born_dead(0, False)]},
    ticks=10,
)

# 8. crash loop with a failure budget: the manager gives up with -1
run(
    "crash loop with max_fails=3",
    2,
    {2: [born_dead(1), kill(1)]},
    ticks=20,
    max_fails=3,
    expect=-1,
)

# 9. shutdown while a worker is dead: no replacement, live ones are signalled
m, lines = run(
    "shutdown races with a death",
    3,
    {2: [kill(2), sigterm]},
    ticks=9,
    expect=None,
)
assert len(W.procs) == 3, "a worker was started during shutdown"
assert sorted(p for p, _ in W.kills) == sorted(p.pid for p in m.workers if p._alive)
assert len(W.kills) == 2

# 9b. the death was queued one tick before the shutdown request: the queue is
#     FIFO, so the slot is replaced first and then all three are signalled
m, lines = run(
    "death queued, shutdown in the next tick",
    3,
    {2: [kill(2)], 3: [sigterm]},
    ticks=9,
    expect=None,
)
assert len(W.procs) == 4 and len(W.kills) == 3

# 10. reload requests for unknown slots and for a slot reloaded twice
run(
    "unknown slot ids and duplicate reload-one",
    2,
    {
        2: [
            post(lambda: pm.ReloadOneAction(worker_num=7, is_reload_all=True)),
            post(lambda: pm.ReloadOneAction(worker_num=-1, is_reload_all=True)),
            post(lambda: pm.ReloadOneAction(worker_num=0, is_reload_all=True)),
            post(lambda: pm.ReloadOneAction(worker_num=0, is_reload_all=True)),
            kill(0),
        ],
    },
    ticks=6,
)

# 11. the slot is replaced behind the manager's back by an object that is
#     already dead (state changed between calls): still queued and replaced
def swap_in_dead(m):
    old = m.workers[0]
    old.terminate()
    old.join()
    new = FakeProcess(name="worker-0")
    new.start()
    new.die(3)
    m.workers[0] = new


run("slot swapped externally for a dead process", 2, {2: [kill(0)], 3: [swap_in_dead]}, ticks=7)

print("ALL HISTORIES OK: checked S (slot count), L (one live per slot, old "
      "terminated+joined first), Q (one restart queued per dead slot per tick), "
      "T (replaced within two ticks), R (return value)")
sys.exit(0)
