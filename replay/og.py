"""Native replay for unit `og` (C01, C03, C04, C05): the REAL Receiver.listen on a deterministic virtual-time event loop with a
scripted broker.  Parameters (A, P, N, limit on/off, wait_tasks_timeout on/off) come from the verifier's counter-state; the driver
enacts a small family of schedules around it (backlog, short / long / never-ending tasks, stop instants) and evaluates the
statements natively on the observed trace.  Run with /venv/bin/python.  Prints one JSON line."""
import sys, json, asyncio, selectors, logging
logging.disable(logging.CRITICAL)

class VirtualLoop(asyncio.SelectorEventLoop):
    """selector never blocks; time() jumps to the next timer"""
    def __init__(self):
        super().__init__(selectors.DefaultSelector()); self._vt = 0.0
        sel = self._selector; orig = sel.select
        def select(timeout=None):
            ev = orig(0)
            if not ev and timeout is not None and timeout > 0: self._vt += timeout
            elif not ev and timeout is None: raise RuntimeError("virtual loop idle forever (deadlock)")
            return ev
        sel.select = select
    def time(self): return self._vt

def run_virtual(coro, until):
    loop = VirtualLoop(); asyncio.set_event_loop(loop)
    try: return loop.run_until_complete(asyncio.wait_for(coro, until))
    finally:
        try:
            for t in asyncio.all_tasks(loop): t.cancel()
            loop.run_until_complete(asyncio.sleep(0))
        except BaseException: pass
        loop.close()

async def scenario(ev, A, P, N, backlog, durs, stop_at, wtt, arrivals=None, fault=None):
    from taskiq.abc.broker import AsyncBroker
    from taskiq.receiver import Receiver
    from taskiq import AckableMessage
    AsyncBroker.global_task_registry = {}
    import taskiq.receiver.receiver as _rm
    _qd = getattr(_rm, 'QUEUE_DONE', b"-1")
    # a payload EQUAL to the marker but cut out of a larger buffer, as a broker reading frames off a socket produces it
    SENTINEL_COPY = (b'..' + bytes(_qd))[2:] if isinstance(_qd, (bytes, bytearray)) else (''.join(list(_qd)) if isinstance(_qd, str) else b"-1")
    loop = asyncio.get_event_loop()
    class B(AsyncBroker):
        def __init__(self): super().__init__(); self.q = asyncio.Queue()
        async def kick(self, m): await self.q.put(m.message)
        async def listen(self):
            n = 0
            while True:
                m = await self.q.get(); i = n; n += 1
                if fault == 'sentinel_payload' and i == 2:
                    ev.append(('malformed', -1, loop.time())); yield SENTINEL_COPY          # a malformed raw message (delivered before message 2) whose payload happens to equal the internal end-of-stream marker
                if fault == 'malformed_burst' and i == 0:          # history: unusable messages first (garbage frames, a message naming an unknown task), then the backlog saturates the worker
                    from taskiq.message import TaskiqMessage as _TM
                    for j_ in range(4):
                        ev.append(('malformed', -1, loop.time())); yield (b"{not json" if j_ % 2 == 0 else self.formatter.dumps(_TM(task_id=f'u{j_}', task_name='no-such-task', labels={}, labels_types=None, args=[], kwargs={})).message)
                ev.append(('taken', i, loop.time()))
                def ack(i=i):
                    if fault == 'ack_future':          # the acknowledgement is an awaitable that is not a coroutine (a Future, as `loop.run_in_executor(None, sync_ack)` returns): it completes a little later
                        fut = loop.create_future(); loop.call_later(0.05, lambda: (ev.append(('acked', i, loop.time())), fut.set_result(None))); return fut
                    ev.append(('acked', i, loop.time()))
                    if fault == 'ack_raises' and i % 2 == 0: raise ConnectionError("connection to the broker was lost on ack")
                    if fault == 'ack_cancelled' and i % 2 == 0: raise asyncio.CancelledError("the acknowledgement's own helper task was cancelled")          # passes through callback's `except Exception`: the handler task ends CANCELLED
                yield AckableMessage(data=m, ack=ack)
    b = B()
    @b.task(task_name="t")
    async def t(i: int):
        ev.append(('start', i, loop.time()))
        await asyncio.sleep(durs[i % len(durs)])
        ev.append(('end', i, loop.time()))
        if fault == 'task_cancelled' and i % 2 == 0:          # the task function itself ends with CancelledError (it cancelled and awaited a helper task of its own)
            h = asyncio.ensure_future(asyncio.sleep(10 ** 6)); h.cancel(); await h
    async def feed():
        for i in range(backlog):
            if arrivals: await asyncio.sleep(arrivals[i % len(arrivals)])
            await t.kiq(i)
    feeder = asyncio.ensure_future(feed())
    if not arrivals: await feeder
    r = Receiver(b, max_async_tasks=A, max_prefetch=P, max_tasks_to_execute=N, run_startup=False, wait_tasks_timeout=wtt)
    stop = asyncio.Event()
    if stop_at is not None: loop.call_later(stop_at, lambda: (ev.append(('stop', -1, loop.time())), stop.set()))
    await r.listen(stop)
    ev.append(('returned', -1, loop.time()))
    feeder.cancel()
    return ev

def sync_saturation(A=2, P=0, backlog=9):
    """real threads, real clock: SYNC task functions that block in the worker's thread pool while a backlog waits; the bounds of C03/C04 hold for them too"""
    import threading, time as _t
    from concurrent.futures import ThreadPoolExecutor
    from taskiq.abc.broker import AsyncBroker
    from taskiq.receiver import Receiver
    from taskiq.message import TaskiqMessage
    AsyncBroker.global_task_registry = {}
    lock = threading.Lock(); st = {'run': 0, 'mx': 0, 'taken': 0, 'done': 0, 'mxunf': 0}
    async def main():
        class B(AsyncBroker):
            async def kick(self, m): pass
            async def listen(self):
                for i in range(backlog):
                    with lock: st['taken'] += 1; st['mxunf'] = max(st['mxunf'], st['taken'] - st['done'])
                    yield self.formatter.dumps(TaskiqMessage(task_id=f's{i}', task_name='blocking', labels={}, labels_types=None, args=[i], kwargs={})).message
                await asyncio.Event().wait()
        b = B()
        def blocking(i):
            with lock: st['run'] += 1; st['mx'] = max(st['mx'], st['run'])
            _t.sleep(0.08)
            with lock: st['run'] -= 1; st['done'] += 1
        b.register_task(blocking, task_name='blocking')
        with ThreadPoolExecutor(backlog) as pool:
            r = Receiver(b, executor=pool, max_async_tasks=A, max_prefetch=P, run_startup=False); stop = asyncio.Event()
            lt = asyncio.ensure_future(r.listen(stop)); t0 = _t.monotonic()
            while st['done'] < backlog and _t.monotonic() - t0 < 15 and not lt.done(): await asyncio.sleep(0.02)          # generous: the verdict must not depend on machine load
            stop.set()
            try: await asyncio.wait_for(lt, 5)
            except BaseException: lt.cancel()
    asyncio.run(main())
    f = []
    if st['mx'] > A: f.append(f"C03: {st['mx']} blocking sync task functions ran at the same time in the thread pool with max_async_tasks={A}")
    if st['mxunf'] > A + P + 1: f.append(f"C04: {st['mxunf']} messages taken from the broker and unfinished at one time with blocking sync tasks (bound A+P+1 = {A + P + 1}, backlog {backlog})")
    if st['done'] < backlog: f.append(f"C03: only {st['done']} of {backlog} blocking sync tasks completed within 15 s (they need {0.08 * backlog / A:.2f} s; worker stalled)")
    return f, dict(st)

NEVER = 10 ** 9
def evaluate(cfg, ev, hung):
    A, P, N, wtt, stop_at, backlog, durs = cfg['A'], cfg['P'], cfg['N'], cfg['wtt'], cfg['stop_at'], cfg['backlog'], cfg['durs']
    f = []
    taken = [e for e in ev if e[0] == 'taken']; starts = [e for e in ev if e[0] == 'start']; acked = [e for e in ev if e[0] == 'acked']
    returned = next((e for e in ev if e[0] == 'returned'), None); stop = next((e for e in ev if e[0] == 'stop'), None)
    # C03 / C04 at every instant (events are totally ordered)
    running = 0; unfinished = 0; mx_run = 0; mx_unf = 0
    for e in ev:
        if e[0] == 'taken': unfinished += 1
        if e[0] == 'start': running += 1
        if e[0] == 'end': running -= 1
        if e[0] == 'acked': unfinished -= 1
        mx_run = max(mx_run, running); mx_unf = max(mx_unf, unfinished)
    if A and mx_run > A: f.append(f"C03: {mx_run} tasks running concurrently with max_async_tasks={A}")
    if A and mx_unf > A + P + 1: f.append(f"C04: {mx_unf} unfinished messages > A+P+1 = {A + P + 1}")
    if A == 1:
        order = [e[1] for e in starts]
        if order != sorted(order): f.append(f"C03: limit 1 but start order {order}")
    # C01: exactly once
    from collections import Counter
    c = Counter(e[1] for e in starts)
    dup = [i for i, n in c.items() if n > 1]
    if dup: f.append(f"C01: messages {dup} executed more than once")
    ca = Counter(e[1] for e in acked); dupa = [i for i, n in ca.items() if n > 1]
    if dupa: f.append(f"C02: the acknowledge callback of messages {dupa} was called more than once ({[ca[i] for i in dupa]} times)")
    finite = all(d < NEVER for d in durs)
    if returned is not None and stop is not None and finite and not N and stop_at >= 50.0 and max(durs) * backlog < stop_at * (A or backlog):
        never = [i for i in range(backlog) if i not in c]
        if never: f.append(f"C01/C03: messages {never} were never executed although the broker held them long before the stop request (worker stalled)")
    if returned is not None:
        lost = [e[1] for e in taken if e[1] not in c]
        if lost: f.append(f"C01/C05: messages {lost} were taken from the broker but never executed (taken {len(taken)}, executed {len(c)})")
        if finite and wtt is None:
            upto = ev[:ev.index(returned)]          # what happened BEFORE listen() returned (afterwards the driver cancels whatever is left)
            running_at_return = [e[1] for e in starts if not any(x[0] == 'acked' and x[1] == e[1] for x in upto)]
            if running_at_return: f.append(f"C05: listen() returned while accepted tasks {running_at_return} had not completed (no wait_tasks_timeout)")
    if stop is not None:
        after = [e for e in taken if e[2] > stop[2]]
        if len(after) > 1: f.append(f"C05: {len(after)} messages taken after the stop request")
    if N:
        n_all = len(taken) + len([e for e in ev if e[0] == 'malformed'])          # an unusable message taken from the broker counts towards the quota like any other
        if n_all > N: f.append(f"C05/C01: max_tasks_to_execute={N} but {n_all} messages were taken from the broker")
        if returned is not None and stop is None and backlog >= N and n_all < N: f.append(f"C05: only {n_all} of N={N} accepted")
    lr = next((e for e in ev if e[0] == 'listen_raised'), None)
    if lr is not None:
        f.append(f"C05: listen() raised {lr[2]} instead of returning after the accepted work completed")
        lost = [e[1] for e in taken if e[1] not in c]; unfinished_ = [e[1] for e in starts if not any(x[0] == 'acked' and x[1] == e[1] for x in ev)]
        if lost: f.append(f"C01/C05: messages {lost} were taken from the broker but never executed (listen() raised)")
        if unfinished_: f.append(f"C05: accepted tasks {unfinished_} were abandoned before completion (listen() raised)")
    if hung and A and running == 0 and finite and len(starts) >= A:
        f.append(f"C03: the worker is stuck although no task function is running (started {len(starts)}, all ended): execution slots of max_async_tasks={A} were leaked")
    if hung:
        must_return = (stop is not None or N) and (finite or wtt is not None)
        if must_return: f.append(f"C05: listen() did not return ({'wait_tasks_timeout=' + str(wtt) if wtt is not None else 'all tasks finite'}; stop at {stop_at}, N={N})")
    elif stop is None and not N and returned is not None:
        f.append("listen() returned without a stop request")
    return f, {'taken': len(taken), 'executed': len(c), 'max_running': mx_run, 'max_unfinished': mx_unf, 'returned_at': returned[2] if returned else None}

def run(sc):
    def clamp(v, lo, hi, d): return min(hi, max(lo, v)) if isinstance(v, int) and not isinstance(v, bool) else d
    A0 = clamp(sc.get('A'), 1, 4, 2); P0 = clamp(sc.get('P'), 0, 4, 1); N0 = clamp(sc.get('N'), 0, 5, 0)
    hasA = sc.get('hasA', True); hasT = sc.get('has_wait_timeout', None)
    cfgs = []
    As = [A0 if hasA else None] + ([1, 3] if sc.get('wide') else [])
    for A in As:
        for P in sorted({P0, 0} | ({2} if sc.get('wide') else set())):
            for N in sorted({N0, 0} | ({2} if sc.get('wide') or N0 else set())):
                for durs in ([1000.0], [1.0], [0.5, 30.0, 2.0], [NEVER]):
                    for stop_at in (None, 0.1, 50.0, 1000.2):
                        for wtt in ([5.0] if hasT else [None] if hasT is False else [None, 5.0]):
                            for arrivals in (None, [0.0, 0.25, 3.0]):
                                if stop_at is None and not N: continue
                                cfgs.append(dict(A=A, P=P, N=N or None, backlog=(A or 3) + P + (N or 0) + 5, durs=durs, stop_at=stop_at, wtt=wtt, arrivals=arrivals, fault=None))
                                if arrivals is None and durs in ([1.0], [0.5, 30.0, 2.0]) and wtt is None and stop_at is not None:
                                    for fault in ('sentinel_payload', 'malformed_burst', 'ack_raises', 'ack_cancelled', 'ack_future', 'task_cancelled'):
                                        cfgs.append(dict(A=A, P=P, N=N or None, backlog=(A or 3) + P + (N or 0) + 5, durs=durs, stop_at=stop_at, wtt=wtt, arrivals=arrivals, fault=fault))
    fails = []; n = 0; stats = []
    for cfg in cfgs:
        ev = []; hung = False
        try: run_virtual(scenario(ev, cfg['A'], cfg['P'], cfg['N'], cfg['backlog'], cfg['durs'], cfg['stop_at'], cfg['wtt'], cfg['arrivals'], cfg.get('fault')), until=10 ** 7)
        except asyncio.TimeoutError: hung = True
        except Exception as ex:          # listen() itself failed (e.g. an exception group out of the task group)
            if isinstance(ex, RuntimeError) and 'idle forever' in str(ex): hung = True
            else:
                inner = getattr(ex, 'exceptions', None)
                ev.append(('listen_raised', -1, type(ex).__name__ + (' of ' + ', '.join(type(x).__name__ for x in inner) if inner else '') + ': ' + str(ex)[:120]))
        n += 1
        fl, st = evaluate(dict(cfg, N=cfg['N'] or 0), ev, hung)
        if fl: fails.append({'key': json.dumps({k: v for k, v in cfg.items()}, sort_keys=True), 'config': cfg, 'failed_clauses': fl, 'observed': st})
    fl, st = sync_saturation(); n += 1
    if fl: fails.append({'key': 'sync-saturation', 'config': {'A': 2, 'P': 0, 'backlog': 9, 'task': 'sync, blocks 0.08 s in the thread pool', 'clock': 'real'}, 'failed_clauses': fl, 'observed': st})
    return {'reproduced': bool(fails), 'runs': n, 'n_failures': len(fails), 'failures': fails[:400]}
if __name__ == '__main__':
    sc = json.load(open(sys.argv[1])) if len(sys.argv) > 1 else {}
    print(json.dumps(run(sc.get('scenario', sc)), default=str))
